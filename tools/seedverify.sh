#!/bin/bash
# tools/seedverify.sh <seeded-dir>...   re-runs, for each stored change, the quick tier of the checks recorded as detecting it
# (scratch worktree; nothing is stored). Prints "<name> <check> rc=<n>"; rc=1 means still detected.
export GOFLAGS=-mod=mod GOPROXY=off GOSUMDB=off GOTOOLCHAIN=local
for d in "$@"; do
  name=$(basename "$d")
  checks=$(python3 -c "import json,sys;print(' '.join(json.load(open('$d/meta.json')).get('detected_by') or []))")
  wt=$(mktemp -d /tmp/sv-XXXXXX); rmdir "$wt"
  git -C /repo worktree add -q --detach "$wt" HEAD || { echo "$name worktree-failed"; continue; }
  if ! git -C "$wt" apply "$(realpath "$d/patch.diff")" 2>/dev/null; then echo "$name patch-does-not-apply"; git -C /repo worktree remove --force "$wt"; continue; fi
  rd=$(mktemp -d /tmp/svr-XXXXXX)
  res=""
  for c in $checks; do
    VERIF_REPO="$wt" VERIF_REPLAY_DIR="$rd" timeout 1500 /verif/check "$c" --tier quick --no-evidence >/dev/null 2>&1; rc=$?
    res="$res $c:rc=$rc"
    [ $rc -eq 1 ] && break
  done
  echo "$name$res"
  rm -rf "$rd"; git -C /repo worktree remove --force "$wt" 2>/dev/null; git -C /repo worktree prune
done
