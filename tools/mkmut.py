#!/usr/bin/env python3
"""tools/mkmut.py NAME FILE OLD NEW [OLD NEW ...] -> mutants/NAME.diff (unified diff against /repo HEAD, git-apply format)"""
import sys, difflib, os, subprocess
name, path = sys.argv[1], sys.argv[2]
src = subprocess.run(["git", "-C", "/repo", "show", "HEAD:" + path], capture_output=True, text=True, check=True).stdout
new = src
pairs = sys.argv[3:]
for i in range(0, len(pairs), 2):
    old, rep = pairs[i], pairs[i + 1]
    if new.count(old) < 1:
        sys.exit("pattern not found: %r" % old)
    new = new.replace(old, rep, 1)
d = "".join(difflib.unified_diff(src.splitlines(True), new.splitlines(True), "a/" + path, "b/" + path))
out = os.path.join(os.path.dirname(os.path.dirname(os.path.abspath(__file__))), "mutants", name + ".diff")
open(out, "w").write(d)
print(out, len(d.splitlines()), "lines")
