#!/usr/bin/env python3
"""Systematic sensitivity run: simple syntactic mutants of one source file of /repo.

  tools/mutate.py <path relative to /repo> <CHECK> [<CHECK> ...] [--max N] [--out FILE] [--start K] [--lines L1,L2,...]

For every mutant that still compiles and passes the repository's own tests, the named checks are
run (quick tier, in order, stopping at the first that reports a violation) against a scratch
worktree. Survivors are written to the output file with the diff line, so that each can be judged:
equivalent mutant, outside every listed property, or a gap in the checks.
"""
import os, re, subprocess, sys, tempfile, json, shutil, time

REPO = "/repo"
ENV = dict(os.environ, GOFLAGS="-mod=mod", GOPROXY="off", GOSUMDB="off", GOTOOLCHAIN="local")

OPS = [
    (r"==", "!="), (r"!=", "=="), (r"<=", "<"), (r">=", ">"), (r"(?<![<>=!])<(?![=<-])", "<="), (r"(?<![<>=!-])>(?![=>])", ">="),
    (r"&&", "||"), (r"\|\|", "&&"), (r"\btrue\b", "false"), (r"\bfalse\b", "true"),
    (r"\+ 1\b", "+ 2"), (r"- 1\b", "- 0"), (r"\b0\b", "1"), (r"\b1\b", "0"), (r"\b2\b", "3"), (r"\b3\b", "4"),
    (r"\bbreak\b", "continue"), (r"\bcontinue\b", "break"), (r"!(\w)", r"\1"),
    (r"\breturn nil\b", 'return fmt.Errorf("mutant")'), (r"LastIndex", "Index"), (r"SplitN\(([^,]+), ([^,]+), 2\)", r"Split(\1, \2)"),
    (r'"', None),  # placeholder: handled by string tweak below
]


def mutants_of(src):
    lines = src.split("\n")
    out = []
    in_block = False
    for i, line in enumerate(lines):
        s = line.strip()
        if s.startswith("/*"):
            in_block = True
        if in_block:
            if "*/" in s:
                in_block = False
            continue
        if not s or s.startswith("//") or s.startswith("import") or s.startswith("package") or s.startswith('"'):
            continue
        code = line.split("//")[0] if '"' not in line else line
        # operator replacements (every occurrence separately)
        for pat, rep in OPS:
            if rep is None:
                continue
            for m in re.finditer(pat, code):
                # skip matches inside string literals (odd number of quotes before)
                if code[:m.start()].count('"') % 2 == 1 or code[:m.start()].count('`') % 2 == 1:
                    continue
                new = code[:m.start()] + m.expand(rep) + code[m.end():]
                if new != code:
                    out.append((i, line, new + line[len(code):], "op %s -> %s" % (pat, rep)))
        # force a condition
        mc = re.match(r"^(\s*(?:\} else )?if )(.+)( \{\s*)$", code)
        if mc and ";" not in mc.group(2):
            out.append((i, line, mc.group(1) + "false && (" + mc.group(2) + ")" + mc.group(3), "condition forced false"))
            out.append((i, line, mc.group(1) + "true || (" + mc.group(2) + ")" + mc.group(3), "condition forced true"))
        # statement deletion: simple call / assignment / inc-dec statements
        if re.match(r"^\s*[\w\.\[\]\*&]+(\([^{}]*\)|\s*(=|\+=|-=|\+\+|--)[^{}]*)$", code) and not s.startswith(("return", "go ", "defer", "case", "default", "var ", "type ", "func ")):
            if ":=" not in code:
                out.append((i, line, re.match(r"^\s*", line).group(0) + "_ = 0 // deleted", "delete statement"))
        if s.startswith("defer ") and "{" not in s:
            out.append((i, line, re.match(r"^\s*", line).group(0) + "_ = 0 // deleted defer", "delete defer"))
    return lines, out


def run(cmd, cwd, timeout):
    try:
        p = subprocess.run(cmd, cwd=cwd, env=ENV, stdout=subprocess.PIPE, stderr=subprocess.STDOUT, timeout=timeout)
        return p.returncode, p.stdout.decode("utf-8", "replace")
    except subprocess.TimeoutExpired:
        return -9, "timeout"


def main():
    args = sys.argv[1:]
    path = args[0]
    checks, maxn, outf, start, only = [], 10**9, None, 0, None
    it = iter(args[1:])
    for a in it:
        if a == "--max":
            maxn = int(next(it))
        elif a == "--out":
            outf = next(it)
        elif a == "--start":
            start = int(next(it))
        elif a == "--lines":
            only = set(int(x) for x in next(it).split(","))
        else:
            checks.append(a)
    outf = outf or "/verif/mutants/survivors-%s.txt" % path.replace("/", "_")
    wt = tempfile.mkdtemp(prefix="mutwt-")
    os.rmdir(wt)
    subprocess.run(["git", "-C", REPO, "worktree", "add", "-q", "--detach", wt, "HEAD"], check=True)
    rd = tempfile.mkdtemp(prefix="mutrd-")
    try:
        src = open(os.path.join(wt, path)).read()
        lines, muts = mutants_of(src)
        # de-duplicate
        seen, uniq = set(), []
        for m in muts:
            k = (m[0], m[2])
            if k not in seen:
                seen.add(k)
                uniq.append(m)
        if only:
            uniq = [m for m in uniq if m[0] + 1 in only]
        muts = uniq[start:start + maxn]
        stats = dict(total=len(muts), nocompile=0, repo_tests_kill=0, killed=0, survived=0)
        log = open(outf, "a")
        log.write("# %s  checks=%s  %d mutants  %s\n" % (path, ",".join(checks), len(muts), time.strftime("%F %T")))
        for n, (i, old, new, kind) in enumerate(muts):
            ml = list(lines)
            ml[i] = new
            open(os.path.join(wt, path), "w").write("\n".join(ml))
            pkgs = ["./varlink/...", "./cmd/varlink-go-interface-generator/"]
            rc, o = run(["go", "build"] + pkgs, wt, 300)
            if rc != 0:
                stats["nocompile"] += 1
                continue
            rc, o = run(["go", "vet"] + ["./" + os.path.dirname(path) + "/"], wt, 300)
            rc, o = run(["go", "test", "-vet=off", "-count=1", "-timeout", "120s"] + pkgs, wt, 400)
            if rc != 0:
                stats["repo_tests_kill"] += 1
                continue
            killer, odd = None, []
            for c in checks:
                env = dict(ENV, VERIF_REPO=wt, VERIF_REPLAY_DIR=rd)
                # own process group, so that a timeout takes the test binaries with it
                p = subprocess.Popen(["/verif/check", c, "--tier", "quick", "--no-evidence"], env=env, stdout=subprocess.PIPE, stderr=subprocess.STDOUT, start_new_session=True)
                try:
                    p.communicate(timeout=1500)
                    rc2 = p.returncode
                except subprocess.TimeoutExpired:
                    os.killpg(p.pid, 9)
                    p.communicate()
                    rc2 = -9
                if rc2 == 1:
                    killer = c
                    break
                if rc2 != 0:
                    odd.append("%s rc=%s" % (c, rc2))
            if killer is None and odd:
                stats["inconclusive"] = stats.get("inconclusive", 0) + 1
                log.write("INCONCLUSIVE (%s) | line %d | %s | - %s | + %s\n" % (", ".join(odd), i + 1, kind, old.strip()[:140], new.strip()[:140]))
            elif killer:
                stats["killed"] += 1
                log.write("killed by %s | line %d | %s | %s\n" % (killer, i + 1, kind, new.strip()[:140]))
            else:
                stats["survived"] += 1
                log.write("SURVIVED | line %d | %s | - %s | + %s\n" % (i + 1, kind, old.strip()[:140], new.strip()[:140]))
            log.flush()
            shutil.rmtree(rd, ignore_errors=True)
            os.makedirs(rd, exist_ok=True)
        log.write("# done %s\n" % json.dumps(stats))
        log.close()
        print(path, stats)
    finally:
        subprocess.run(["git", "-C", REPO, "worktree", "remove", "--force", wt])
        subprocess.run(["git", "-C", REPO, "worktree", "prune"])
        shutil.rmtree(rd, ignore_errors=True)


if __name__ == "__main__":
    main()
