#!/opt/veriftools/pyvenv/bin/python
import json, jsonschema, glob, sys
ms = json.load(open('/root/.vp/MANIFEST.schema.json')); es = json.load(open('/root/.vp/EVIDENCE.schema.json'))
jsonschema.validate(json.load(open('/verif/MANIFEST.json')), ms)
n = 0
for f in sorted(glob.glob('/verif/evidence/*.json')):
    jsonschema.validate(json.load(open(f)), es); n += 1
print('MANIFEST valid; %d evidence files valid' % n)
