#!/usr/bin/env python3
"""Regenerates /verif/MANIFEST.json from plan.py and the tables below."""
import json, os, sys
V = os.path.dirname(os.path.dirname(os.path.abspath(__file__)))
sys.path.insert(0, V)
from plan import PLAN, LEVEL, CLAIM  # noqa

props = [json.loads(l) for l in open(os.path.join(V, "properties.jsonl"))]
checks, na = [], []
for p in props:
    pid = p["id"]
    if pid in PLAN and pid in CLAIM:
        c = CLAIM[pid]
        checks.append(dict(
            property_id=pid,
            quick_cmd="./check %s --tier quick" % pid,
            thorough_cmd="./check %s --tier thorough" % pid,
            evidence_file="evidence/%s.json" % pid,
            replay_cmd_template="./check %s --replay {path}" % pid,
            engine="pbt-harness",
            level_claimed=dict(category=LEVEL[pid], text=c["text"], design_ref=c["ref"]),
            level_note=c["note"],
            technique=c["technique"]))
    else:
        na.append(dict(property_id=pid, reason="check not built yet in this session (work in progress; see DESIGN.md section 10 for the order)"))
m = dict(
    version=1,
    setup_cmd="./check setup",
    hooks=dict(
        guard="verif",
        enable="go test -tags verif -overlay <work>/overlay.json -vet=off (the overlay maps /repo/varlink/zz_verif_export.go to /verif/overlay/zz_verif_export.go, a '//go:build verif' file with three accessors (install listener, read active-connection count, wrap an established net.Conn as a Connection); nothing guarded is committed in /repo)",
        baseline_off_cmd="cd /repo && go test -vet=off -count=1 ./varlink/... ./cmd/varlink-go-interface-generator/",
        source_commits=[],
        add_only=True),
    engines=[dict(name="pbt-harness", path="harness/", serves_properties=[c["property_id"] for c in checks],
                  kind_free_text="Go module with pgregory.net/rapid v1.3.0 generators, bounded-exhaustive enumerators and native go fuzz targets; reference models in Go; driven by ./check (python3)")],
    checks=checks,
    not_applicable=na,
    notes="All checks rebuild the harness against /repo's working tree (replace directive) on every run. Exit 2 = inconclusive (never a violation). known_findings.json lists fixed defects (with the fix: commit) and known findings.")
json.dump(m, open(os.path.join(V, "MANIFEST.json"), "w"), indent=1)
print("checks:", len(checks), "not_applicable:", len(na))
