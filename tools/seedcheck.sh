#!/bin/bash
# tools/seedcheck.sh <ID> <variant> <tier> <PROP>...   e.g. tools/seedcheck.sh C04 a quick C04
# 1. confirms the seeded change from /tmp/seed/<ID>/out/<variant>: builds, repo tests pass, demo fails with it, passes without
# 2. runs the named checks against a scratch worktree with the change
# 3. stores it as /verif/seeded/<ID>-<variant>/ (patch.diff, demo, meta.json)
set -u
id="$1"; v="$2"; tier="$3"; shift 3
base=${SEED_BASE:-/tmp/seed}
src=$base/$id/out/$v
[ -f "$src/patch.diff" ] || { echo "no patch in $src"; exit 2; }
export GOFLAGS=-mod=mod GOPROXY=off GOSUMDB=off GOTOOLCHAIN=local
wt=$(mktemp -d /tmp/sc-XXXXXX); rmdir "$wt"
git -C /repo worktree add -q --detach "$wt" HEAD || exit 2
trap 'git -C /repo worktree remove --force "$wt" 2>/dev/null; git -C /repo worktree prune' EXIT
demo=$(ls "$src" | grep -E '\.go$' | head -5)
sed -e "s#$base/$id/wt#$wt#g" "$src/demo_cmd.txt" | grep -vE "^[[:space:]]*(git (apply|checkout|stash|diff|status)|rm |# )" > /tmp/sc-cmd.$$
place_demo() {
  for f in $demo; do
    pk=$(grep -m1 '^package ' "$src/$f" | awk '{print $2}')
    case "$pk" in
      idl|idl_test) dst=varlink/idl ;;
      ctxio|ctxio_test) dst=varlink/internal/ctxio ;;
      main) dst=cmd/varlink-go-interface-generator ;;
      *) dst=varlink ;;
    esac
    cp "$src/$f" "$wt/$dst/$f"
  done
}
run_demo() { place_demo; (cd "$wt" && bash -e /tmp/sc-cmd.$$ >/tmp/sc-demo.$$ 2>&1); rc=$?; grep -aq "no tests to run" /tmp/sc-demo.$$ && { echo "demo: no tests ran"; rc=99; }; return $rc; }
# demo without the change
run_demo; r0=$?
git -C "$wt" status --short | awk '{print $2}' | while read f; do rm -f "$wt/$f"; done; git -C "$wt" checkout -q -- .
git -C "$wt" apply "$src/patch.diff" || { echo "patch does not apply"; exit 2; }
# (the repository's tests use fixed abstract socket names: a concurrent run elsewhere on the machine makes them collide - retry)
for try in 1 2 3; do
  (cd "$wt" && go build ./varlink/... ./cmd/varlink-go-interface-generator/ && go test -vet=off -count=1 ./varlink/... ./cmd/varlink-go-interface-generator/ >/tmp/sc-base.$$ 2>&1); rb=$?
  [ $rb -eq 0 ] && break
  grep -aq "address already in use" /tmp/sc-base.$$ || break
  sleep 3
done
run_demo; r1=$?
tail -3 /tmp/sc-demo.$$ | cut -c1-200
# remove demo files again (keep the patch)
git -C "$wt" status --short | grep '^??' | awk '{print $2}' | while read f; do rm -rf "$wt/$f"; done
echo "seed $id-$v: demo without change rc=$r0 (want 0); repo tests with change rc=$rb (want 0); demo with change rc=$r1 (want !=0)"
rm -f /tmp/sc-demo.$$ /tmp/sc-base.$$ /tmp/sc-cmd.$$
ok=0; [ $r0 -eq 0 ] && [ $rb -eq 0 ] && [ $r1 -ne 0 ] && ok=1
results=""
rd=$(mktemp -d /tmp/screplays-XXXXXX)
for p in "$@"; do
  VERIF_REPO="$wt" VERIF_REPLAY_DIR="$rd" /verif/check "$p" --tier "$tier" --no-evidence > /tmp/sc-out.$$ 2>&1; rc=$?
  echo "== check $p ($tier) rc=$rc"
  grep -aE "^(VIOLATION|KNOWN-FINDING|INCONCLUSIVE|---- violation)" /tmp/sc-out.$$ | cut -c1-500 | head -4
  results="$results $p:$tier:rc=$rc"
  rm -f /tmp/sc-out.$$
done
rm -rf "$rd"
if [ $ok -eq 1 ]; then
  d=/verif/seeded/$id-$v; mkdir -p "$d"
  cp "$src/patch.diff" "$d/"; for f in $demo; do cp "$src/$f" "$d/$f.txt"; done; cp "$src/demo_cmd.txt" "$d/"; cp "$src/notes.md" "$d/" 2>/dev/null
  python3 - "$id" "$v" "$results" <<'PY'
import json,sys,os
id,v,res=sys.argv[1:4]
d="/verif/seeded/%s-%s"%(id,v)
p=os.path.join(d,"meta.json")
m=json.load(open(p)) if os.path.exists(p) else {}
m.update(property=id, variant=v, source="independent sub-agent given only the property text and a scratch worktree",
         confirmed=dict(demo_passes_without_change=True, repo_tests_pass_with_change=True, demo_fails_with_change=True))
notes=open(os.path.join(d,"notes.md")).read() if os.path.exists(os.path.join(d,"notes.md")) else ""
m["needs_to_manifest"]=m.get("needs_to_manifest") or notes[:1500]
runs=m.get("runs",[])
for r in res.split():
    if r not in runs: runs.append(r)
m["runs"]=runs
m["detected_by"]=sorted({r.split(":")[0] for r in runs if r.endswith("rc=1")})
json.dump(m,open(p,"w"),indent=1)
print("stored",d,"detected_by",m["detected_by"])
PY
else
  echo "seed NOT confirmed; not stored"
fi
