#!/bin/bash
# Sensitivity run: apply a change to a scratch worktree of /repo and run checks against it.
#   tools/mutant.sh <patch.diff | revert:<sha> > <tier> <PROP>...
# Replays found are written to a scratch directory (printed), not to /verif/replays,
# unless KEEP_REPLAYS=1. The worktree and its build output are removed afterwards.
set -u
change="$1"; tier="$2"; shift 2
wt=$(mktemp -d /tmp/mut-XXXXXX)
rmdir "$wt"
git -C /repo worktree add -q --detach "$wt" HEAD || exit 2
cleanup() { git -C /repo worktree remove --force "$wt" 2>/dev/null; rm -rf "$wt" "$rd"; git -C /repo worktree prune; }
rd=$(mktemp -d /tmp/mutreplays-XXXXXX)
trap cleanup EXIT
case "$change" in
  revert:*) git -C "$wt" revert --no-commit "${change#revert:}" >/dev/null || { echo "revert failed"; exit 2; } ;;
  *) git -C "$wt" apply "$(realpath "$change")" || { echo "patch does not apply"; exit 2; } ;;
esac
export GOFLAGS=-mod=mod GOPROXY=off GOSUMDB=off GOTOOLCHAIN=local
if [ "${SKIP_BASELINE:-0}" != 1 ]; then
  (cd "$wt" && go build ./varlink/... ./cmd/varlink-go-interface-generator/ && go test -vet=off -count=1 ./varlink/... ./cmd/varlink-go-interface-generator/ >/tmp/mut-baseline.$$ 2>&1) \
    && echo "baseline: PASS (mutant compiles, repo tests pass)" || { echo "baseline: FAIL"; tail -20 /tmp/mut-baseline.$$; }
  rm -f /tmp/mut-baseline.$$
fi
rc_all=0
for p in "$@"; do
  if [ "${KEEP_REPLAYS:-0}" = 1 ]; then
    VERIF_REPO="$wt" /verif/check "$p" --tier "$tier" --no-evidence > /tmp/mut-out.$$ 2>&1
  else
    VERIF_REPO="$wt" VERIF_REPLAY_DIR="$rd" /verif/check "$p" --tier "$tier" --no-evidence > /tmp/mut-out.$$ 2>&1
  fi
  rc=$?
  echo "== $p rc=$rc"
  grep -aE "^(VIOLATION|KNOWN-FINDING|INCONCLUSIVE|---- violation|\[C)" /tmp/mut-out.$$ | cut -c1-400 | head -${MUT_LINES:-8}
  rm -f /tmp/mut-out.$$
  [ $rc -ne 0 ] && rc_all=$rc
done
exit $rc_all
