#!/usr/bin/env python3
"""Regenerates seeded/INDEX.md from the meta.json files."""
import json, glob, os, re
V = os.path.dirname(os.path.dirname(os.path.abspath(__file__)))
rows = []
for f in sorted(glob.glob(os.path.join(V, "seeded", "*", "meta.json"))):
    m = json.load(open(f))
    notes = m.get("needs_to_manifest", "")
    title = ""
    for line in notes.splitlines():
        line = line.strip("# ").strip()
        if line and not line.lower().startswith("notes"):
            title = line
            break
    title = re.sub(r"^(Seed|Seeded|Change|C\d\d)[^:—-]*[:—-]\s*", "", title)[:150]
    runs = m.get("runs", [])
    missed_first = [r.split(":")[0] for r in runs if r.endswith("rc=0") and r.split(":")[0] in m.get("detected_by", [])]
    rows.append((m["property"], m["variant"], title, ", ".join(m.get("detected_by", [])) or "NOT DETECTED", "yes" if missed_first else ""))
out = ["# Independently seeded changes", "",
       "One directory per change: `patch.diff` (applies to the current HEAD of /repo with `git apply`), the demonstration",
       "(`*.go.txt`, `demo_cmd.txt`), the author's `notes.md`, and `meta.json` (property, what it needs to manifest, what was run).",
       "Variants a/b: first round; c/d: second round (subtler changes requested).", "",
       "| property | variant | change (author's title) | detected by (quick tier) | missed before a strengthening |", "|---|---|---|---|---|"]
for r in rows:
    out.append("| %s | %s | %s | %s | %s |" % r)
out.append("")
out.append("%d changes, %d detected." % (len(rows), sum(1 for r in rows if r[3] != "NOT DETECTED")))
open(os.path.join(V, "seeded", "INDEX.md"), "w").write("\n".join(out) + "\n")
print(out[-1])
