package props

// C11 Client decodes exactly what was sent and fails cleanly otherwise.
//
// A scripted raw server drains the request frame, then plays a generated reply byte stream under
// a cut plan and dies at a generated offset. The client calls receive a generated number of
// times; each result is compared with a model of the stream (frames = pieces between NULs).

import (
	"bytes"
	"context"
	"encoding/json"
	"errors"
	"fmt"
	"io"
	"net"
	"os"
	"strings"
	"sync/atomic"
	"testing"
	"time"

	"github.com/varlink/go/varlink"
	"pgregory.net/rapid"
)

// C11Case is one client call against a scripted raw server.
type C11Case struct {
	Method    string          `json:"method"`
	Params    json.RawMessage `json:"params,omitempty"`
	Flags     uint64          `json:"flags"`
	Reply     Blob            `json:"reply"` // what the server sends after reading the request (whole stream)
	Cuts      []int           `json:"cuts,omitempty"`
	AbortAt   int             `json:"abort_at"` // -1: the server sends everything, then closes
	Receives  int             `json:"receives"`
	API       string          `json:"api,omitempty"` // "" = Send + receive | "upgrade" = Upgrade + its receive (flags must be Upgrade) | "call" = Connection.Call (flags 0) | "getinfo", "getdesc" = the introspection wrappers
	Transport string          `json:"transport"`     // pipe | unix
	Origin    string          `json:"origin,omitempty"`
	// LongN > 0: the reply stream is LongN continues-frames of about LongKiB KiB each plus a final frame (built at run time):
	// a long-lived connection - no single frame is large, the connection as a whole carries tens of MiB
	LongN   int `json:"long_n,omitempty"`
	LongKiB int `json:"long_kib,omitempty"`
}

func (c *C11Case) longReply() []byte {
	var b bytes.Buffer
	pad := strings.Repeat("0123456789abcdef", c.LongKiB*64)
	for i := 0; i < c.LongN; i++ {
		fmt.Fprintf(&b, `{"parameters":{"i":%d,"pad":"%s"},"continues":true}`, i, pad)
		b.WriteByte(0)
	}
	b.WriteString(`{"parameters":{"last":true}}`)
	b.WriteByte(0)
	return b.Bytes()
}

type wireReply struct {
	Parameters *json.RawMessage `json:"parameters"`
	Continues  bool             `json:"continues"`
	Error      string           `json:"error"`
}

var c11Counter int64

func flagsForbidden(f uint64) bool {
	return f&varlink.More != 0 && (f&varlink.Oneway != 0 || f&varlink.Upgrade != 0)
}

// execC11 runs the case.
func execC11(c C11Case, bound time.Duration) (facts map[string]bool, err error) {
	bound *= WatchdogScale()
	// (the bound grows with the work: megabytes of request parameters are read by the scripted peer in 4 KiB pieces)
	bound += workAllowance(len(c.Params)+len(c.Reply), nil, false) * WatchdogScale()
	facts = map[string]bool{}
	var cliConn *varlink.Connection
	var srv net.Conn
	switch c.Transport {
	case "unix":
		name := fmt.Sprintf("@verif-c11-%d-%d", os.Getpid(), atomic.AddInt64(&c11Counter, 1))
		l, lerr := net.Listen("unix", name)
		if lerr != nil {
			return facts, fmt.Errorf("HARNESS: listen: %v", lerr)
		}
		defer l.Close()
		acc := make(chan net.Conn, 1)
		go func() {
			s, aerr := l.Accept()
			if aerr != nil {
				acc <- nil
				return
			}
			acc <- s
		}()
		ctx, cancel := context.WithTimeout(context.Background(), bound)
		cc, cerr := varlink.NewConnection(ctx, "unix:"+name)
		cancel()
		if cerr != nil {
			return facts, fmt.Errorf("NewConnection to a listening abstract socket failed: %v", cerr)
		}
		cliConn = cc
		srv = <-acc
		if srv == nil {
			return facts, fmt.Errorf("HARNESS: accept failed")
		}
	default:
		a, b := net.Pipe()
		cliConn = varlink.VerifNewConnection(sockLikePipe{a})
		srv = b
	}
	defer cliConn.Close()

	if c.LongN > 0 {
		c.Reply = c.longReply()
		facts["long-lived-connection"] = true
	}
	sent := []byte(c.Reply)
	if c.AbortAt >= 0 && c.AbortAt < len(sent) {
		sent = sent[:c.AbortAt]
		facts["aborted"] = true
	}
	// the raw server
	type srvOut struct {
		req []byte
		err error
	}
	reqCh := make(chan srvOut, 1)
	srvDone := make(chan struct{})
	go func() {
		defer close(srvDone)
		defer srv.Close()
		var req []byte
		buf := make([]byte, 4096)
		srv.SetReadDeadline(time.Now().Add(bound))
		for !bytes.Contains(req, []byte{0}) {
			n, rerr := srv.Read(buf)
			req = append(req, buf[:n]...)
			if rerr != nil {
				reqCh <- srvOut{req, rerr}
				return
			}
		}
		reqCh <- srvOut{req, nil}
		for _, seg := range Segments(sent, c.Cuts) {
			srv.SetWriteDeadline(time.Now().Add(bound))
			if _, werr := srv.Write(seg); werr != nil {
				return
			}
		}
		// drain whatever else the client sends until it closes or we give up, so that a unix close does not turn into a reset
		if uc, ok := srv.(*net.UnixConn); ok {
			uc.CloseWrite()
			srv.SetReadDeadline(time.Now().Add(bound))
			io.Copy(io.Discard, srv)
		}
	}()

	var params interface{}
	if c.Params != nil {
		params = c.Params
	}
	ctx, cancel := context.WithTimeout(context.Background(), bound)
	defer cancel()

	if flagsForbidden(c.Flags) {
		facts["forbidden-flags"] = true
		_, serr := cliConn.Send(ctx, c.Method, params, c.Flags)
		if serr == nil {
			return facts, fmt.Errorf("Send accepted the forbidden flag combination %#x (more with oneway/upgrade)", c.Flags)
		}
		// nothing may have been written: the next thing the server reads must be the sentinel
		if _, serr2 := cliConn.Send(ctx, "sentinel.After.Refusal", nil, 0); serr2 != nil {
			return facts, fmt.Errorf("Send of the sentinel after a refused Send failed: %v", serr2)
		}
		so := <-reqCh
		fr, _ := SplitFrames(so.req)
		if len(fr) == 0 {
			return facts, fmt.Errorf("the server did not receive the sentinel frame (err %v, %d bytes)", so.err, len(so.req))
		}
		var wc wireCall
		if json.Unmarshal(fr[0], &wc) != nil || wc.Method != "sentinel.After.Refusal" {
			return facts, fmt.Errorf("a refused Send (flags %#x) wrote to the connection: the server first received %s", c.Flags, Preview(so.req))
		}
		return facts, nil
	}

	var receive func(context.Context, interface{}) (uint64, error)
	var serr error
	switch c.API {
	case "upgrade":
		facts["api:upgrade"] = true
		var up func(context.Context, interface{}) (uint64, varlink.ReadWriterContext, error)
		up, serr = cliConn.Upgrade(ctx, c.Method, params)
		if serr == nil {
			receive = func(ctx context.Context, out interface{}) (uint64, error) {
				fl, rwc, err := up(ctx, out)
				if err == nil && rwc == nil {
					return fl, fmt.Errorf("Upgrade's receive returned neither a connection nor an error")
				}
				return fl, err
			}
		}
	case "call":
		facts["api:call"] = true
		// Call = Send + one receive; the request is written by the first (and only) receive of this wrapper
		callDone := make(chan error, 1)
		var callOut json.RawMessage
		go func() { callDone <- cliConn.Call(ctx, c.Method, params, &callOut) }()
		first := true
		receive = func(ctx context.Context, out interface{}) (uint64, error) {
			if !first {
				return 0, io.ErrUnexpectedEOF // Call reads exactly one frame; later frames are not this API's business
			}
			first = false
			select {
			case err := <-callDone:
				if p, ok := out.(*json.RawMessage); ok {
					*p = callOut
				}
				return 0, err
			case <-time.After(bound):
				return 0, context.DeadlineExceeded
			}
		}
	case "getinfo", "getdesc":
		// the convenience wrappers are client calls like any other: one request, one reply frame, success only for a complete reply
		facts["api:"+c.API] = true
		callDone := make(chan error, 1)
		var wrapped json.RawMessage
		go func() {
			if c.API == "getinfo" {
				var v, p, ver, u string
				var ifs []string
				e := cliConn.GetInfo(ctx, &v, &p, &ver, &u, &ifs)
				wrapped, _ = json.Marshal(map[string]interface{}{"vendor": v, "product": p, "version": ver, "url": u, "interfaces": ifs})
				callDone <- e
				return
			}
			d, e := cliConn.GetInterfaceDescription(ctx, "x.y")
			wrapped, _ = json.Marshal(map[string]interface{}{"description": d})
			callDone <- e
		}()
		first := true
		receive = func(ctx context.Context, out interface{}) (uint64, error) {
			if !first {
				return 0, io.ErrUnexpectedEOF
			}
			first = false
			select {
			case err := <-callDone:
				if p, ok := out.(*json.RawMessage); ok {
					*p = wrapped
				}
				return 0, err
			case <-time.After(bound):
				return 0, context.DeadlineExceeded
			}
		}
	default:
		receive, serr = cliConn.Send(ctx, c.Method, params, c.Flags)
	}
	if serr != nil {
		if isTimeoutErr(serr) {
			return facts, fmt.Errorf("Send(%q, flags %#x, %d bytes of parameters) did not complete within %v although the peer was reading: %v", c.Method, c.Flags, len(c.Params), bound, serr)
		}
		return facts, fmt.Errorf("Send(%q, flags %#x) failed: %v", c.Method, c.Flags, serr)
	}
	so := <-reqCh
	if so.err != nil {
		return facts, fmt.Errorf("the server did not receive a complete request frame: %v (%d bytes)", so.err, len(so.req))
	}
	// exactly one frame, carrying exactly what was requested
	reqFrames, reqRest := SplitFrames(so.req)
	if len(reqFrames) != 1 || len(reqRest) != 0 {
		return facts, fmt.Errorf("Send wrote %d frames + %d stray bytes, want exactly one frame: %s", len(reqFrames), len(reqRest), Preview(so.req))
	}
	var members map[string]json.RawMessage
	if uerr := json.Unmarshal(reqFrames[0], &members); uerr != nil {
		return facts, fmt.Errorf("request frame is not a JSON object: %s", Preview(reqFrames[0]))
	}
	for k := range members {
		switch k {
		case "method", "parameters", "more", "oneway", "upgrade":
		default:
			return facts, fmt.Errorf("request frame has unexpected member %q: %s", k, Preview(reqFrames[0]))
		}
	}
	var wc wireCall
	if uerr := json.Unmarshal(reqFrames[0], &wc); uerr != nil {
		return facts, fmt.Errorf("request frame does not have the call shape: %v: %s", uerr, Preview(reqFrames[0]))
	}
	if wc.Method != c.Method {
		return facts, fmt.Errorf("request frame method %q, want %q", wc.Method, c.Method)
	}
	if wc.More != (c.Flags&varlink.More != 0) || wc.Oneway != (c.Flags&varlink.Oneway != 0) || wc.Upgrade != (c.Flags&varlink.Upgrade != 0) {
		return facts, fmt.Errorf("request frame carries more/oneway/upgrade = %v/%v/%v, requested flags %#x", wc.More, wc.Oneway, wc.Upgrade, c.Flags)
	}
	if c.Params == nil {
		if wc.Parameters != nil && string(*wc.Parameters) != "null" {
			return facts, fmt.Errorf("request frame carries parameters %s, none were passed", Preview(*wc.Parameters))
		}
	} else if wc.Parameters == nil {
		return facts, fmt.Errorf("request frame carries no parameters, passed %s", Preview(c.Params))
	} else if d := JSONDiff(c.Params, *wc.Parameters); d != "" {
		return facts, fmt.Errorf("request frame parameters differ: %s", d)
	}

	frames, rest := SplitFrames(sent)
	var keptErrs []error
	var keptExp []ExpFrame
	defer func() {
		// error values handed out earlier must not have been altered by later receives
		if err == nil {
			for k := range keptErrs {
				if d := CheckClientError(keptErrs[k], keptExp[k]); d != "" {
					if ve, ok := keptErrs[k].(*varlink.Error); ok && ve.Name == keptExp[k].Error {
						continue // (generic form of a standard error: compared when it was received)
					}
					err = fmt.Errorf("an error value returned by an earlier receive changed after later receives: %s", d)
					return
				}
			}
		}
	}()
	nrecv := c.Receives
	callLike := c.API == "call" || c.API == "getinfo" || c.API == "getdesc"
	if callLike && nrecv > 1 {
		nrecv = 1
	}
	for i := 0; i < nrecv; i++ {
		var raw json.RawMessage
		var target interface{} = &raw
		if i < len(frames) && i%2 == 0 {
			var probe wireReply
			if json.Unmarshal(frames[i], &probe) == nil && probe.Error != "" {
				target = &map[string]int{} // an error frame's parameters must not be decoded into the caller's output value
			}
		}
		// every third receive passes no output value at all, as generated stubs do for methods without output
		// (receive(ctx, nil)): the frame's parameters are then simply not delivered
		nilOut := i%3 == 1 && !callLike
		if nilOut {
			target = nil
			facts["nil-output-value"] = true
		}
		fl, rerr := receive(ctx, target)
		pre := fmt.Sprintf("receive %d: ", i)
		if nilOut {
			pre = fmt.Sprintf("receive %d (output value nil): ", i)
		}
		if isTimeoutErr(rerr) {
			return facts, fmt.Errorf("%sdid not return within %v although the server had sent %d bytes and closed", pre, bound, len(sent))
		}
		if i >= len(frames) {
			// the stream ended before this frame's NUL
			if len(rest) > 0 {
				facts["eof-inside-frame"] = true
			} else {
				facts["eof-at-boundary"] = true
			}
			if rerr == nil {
				return facts, fmt.Errorf("%sreported success (flags %#x, parameters %s) although the stream ended before the frame's NUL (%d trailing bytes: %s)", pre, fl, Preview(raw), len(rest), Preview(rest))
			}
			if !errors.Is(rerr, io.ErrUnexpectedEOF) {
				// a kernel socket may report a reset instead of EOF when the peer vanished; only the in-memory transport is exact
				if c.Transport == "pipe" || errors.Is(rerr, io.EOF) {
					return facts, fmt.Errorf("%sstream ended before the frame's NUL: error is %v (%T), want io.ErrUnexpectedEOF", pre, rerr, rerr)
				}
			}
			break // the connection is finished
		}
		var m wireReply
		if uerr := json.Unmarshal(frames[i], &m); uerr != nil {
			facts["bad-frame"] = true
			if json.Valid(frames[i]) {
				facts["wrong-shape"] = true
			}
			if rerr == nil {
				return facts, fmt.Errorf("%sreported success for a frame that is not a reply (%v): %s", pre, uerr, Preview(frames[i]))
			}
			continue
		}
		if m.Error != "" {
			facts["error-frame"] = true
			e := ExpFrame{Kind: "error", Error: m.Error}
			if m.Parameters != nil && string(*m.Parameters) != "null" {
				e.Params = *m.Parameters
			}
			d := CheckClientError(rerr, e)
			if d != "" {
				// for the four standard names the generic *Error with exact name and parameters is equally right
				// (e.g. when the parameters do not fit the typed error)
				var ve *varlink.Error
				if errors.As(rerr, &ve) {
					e2 := e
					e2.Error = "\x00generic"
					if ve.Name == m.Error && CheckClientError(&varlink.Error{Name: "\x00generic", Parameters: ve.Parameters}, e2) == "" {
						d = ""
					}
				}
			}
			if d != "" {
				return facts, fmt.Errorf("%serror frame %s: %s", pre, Preview(frames[i]), d)
			}
			keptErrs = append(keptErrs, rerr)
			keptExp = append(keptExp, e)
			continue
		}
		if rerr != nil {
			return facts, fmt.Errorf("%sreturned error %v (%T) for a well-formed reply frame: %s", pre, rerr, rerr, Preview(frames[i]))
		}
		facts["reply"] = true
		if !callLike && (fl&varlink.Continues != 0) != m.Continues {
			return facts, fmt.Errorf("%sContinues flag = %v, the frame says %v: %s", pre, fl&varlink.Continues != 0, m.Continues, Preview(frames[i]))
		}
		if fl&^uint64(varlink.Continues) != 0 {
			return facts, fmt.Errorf("%sunknown flag bits %#x", pre, fl)
		}
		if nilOut {
			continue
		}
		if c.API == "getinfo" || c.API == "getdesc" {
			// the wrapper's results are the reply's members, where the reply has them with the right types
			var strict, got map[string]json.RawMessage
			if m.Parameters != nil {
				json.Unmarshal(*m.Parameters, &strict)
			}
			json.Unmarshal(raw, &got)
			for _, k := range []string{"vendor", "product", "version", "url", "description"} {
				var sv string
				if w, ok := strict[k]; ok && got[k] != nil && json.Unmarshal(w, &sv) == nil && string(w) != "null" {
					if d := JSONDiff(w, got[k]); d != "" {
						return facts, fmt.Errorf("%s%s returned %s = %s, the reply frame says %s", pre, c.API, k, Preview(got[k]), Preview(w))
					}
				}
			}
			continue
		}
		if m.Parameters == nil || string(*m.Parameters) == "null" {
			if raw != nil && string(raw) != "null" {
				return facts, fmt.Errorf("%sclient got parameters %s from a frame without parameters: %s", pre, Preview(raw), Preview(frames[i]))
			}
		} else if raw == nil {
			return facts, fmt.Errorf("%sclient got no parameters from %s", pre, Preview(frames[i]))
		} else if d := JSONDiff(*m.Parameters, raw); d != "" {
			return facts, fmt.Errorf("%sparameters differ from the frame's: %s", pre, d)
		}
	}
	cliConn.Close()
	select {
	case <-srvDone:
	case <-time.After(bound):
		return facts, fmt.Errorf("HARNESS: raw server did not finish")
	}
	if left := LibGoroutines(bound / 2); left != "" {
		return facts, fmt.Errorf("library goroutines still alive after the client closed:\n%s", left)
	}
	return facts, nil
}

var c11ReplyConsts = []string{`{"parameters":{"vendor":"V","product":"P \"q\"","version":"1","url":"u","interfaces":["org.varlink.service","x.y"]}}`, `{"parameters":{"description":"interface x.y\nmethod M() -> ()\n"}}`,
	`{"parameters":{"vendor":"V","product":7}}`, `{}`, `null`, ` null `, `{"parameters":{}}`, `{"parameters":null}`, `{"continues":true}`, `{"continues":false,"parameters":{"a":1}}`,
	`{"error":"x.y.E"}`, `{"error":"x.y.E","parameters":{"why":"z"}}`, `{"error":""}`, `{"error":"","parameters":{"k":1}}`,
	`{"error":"org.varlink.service.MethodNotFound","parameters":{"method":"Zed"}}`, `{"error":"org.varlink.service.MethodNotFound"}`,
	`{"error":"org.varlink.service.MethodNotFound","parameters":{"method":17}}`, `{"error":"org.varlink.service.InterfaceNotFound","parameters":{"interface":"a.b","extra":1}}`,
	`{"error":"org.varlink.service.MethodNotImplemented","parameters":{"method":"M"}}`, `{"error":"org.varlink.service.InvalidParameter","parameters":{"parameter":"p"}}`,
	`{"error":"org.varlink.service.InvalidParameter","parameters":[]}`, `{"error":"org.varlink.servicex.MethodNotFound","parameters":{"method":"Zed"}}`,
	`{"error":"org.varlink.service.x.MethodNotFound","parameters":{"method":"Zed"}}`, `{"error":"MethodNotFound","parameters":{"method":"Zed"}}`,
	`[]`, `1`, `"x"`, `true`, `{"error":1}`, `{"continues":"yes"}`, `{"continues":1}`, `{"parameters":5}`, `{"parameters":"s"}`, `{"parameters":[1,2]}`,
	`{"parameters":{"a":1}}xyz`, `{"parameters":{"a":1}}}`, `{"parameters":{"a":1}}{"error":"x.y.Boom"}`, `{"parameters":{"a":1}`, `{"parameters":{"a":1},}`,
	``, ` `, `{`, `}`, `{"Parameters":{"a":1},"CONTINUES":true}`, `{"parameters":{"a":1},"unknown":true}`, "\xff\xfe", `{"error":"x.y.\xff"}`}

func genC11Reply(t *rapid.T) []byte {
	var b bytes.Buffer
	n := rapid.IntRange(0, 5).Draw(t, "nframes")
	for i := 0; i < n; i++ {
		var f []byte
		switch rapid.IntRange(0, 9).Draw(t, "fkind") {
		case 0, 1, 2: // valid reply
			f = []byte(`{"parameters":` + string(genDoc(t, "rp")))
			if rapid.Bool().Draw(t, "cont") {
				f = append(f, []byte(`,"continues":true`)...)
			}
			f = append(f, '}')
		case 3: // valid error frame
			name, _ := json.Marshal(genErrorName(t))
			f = []byte(`{"error":` + string(name))
			if rapid.Bool().Draw(t, "ep") {
				f = append(f, []byte(`,"parameters":`+string(genDoc(t, "ep")))...)
			}
			f = append(f, '}')
		case 4, 5:
			f = []byte(rapid.SampledFrom(c11ReplyConsts).Draw(t, "const"))
		case 6, 7:
			base := []byte(`{"parameters":` + string(genDoc(t, "mp")) + `,"continues":true}`)
			f = mutateFrame(t, base)
		case 8:
			f = rapid.SliceOfN(rapid.Byte(), 0, 30).Draw(t, "rand")
			f = bytes.ReplaceAll(f, []byte{0}, []byte{1})
		default:
			f = []byte(`{"error":"org.varlink.service.` + rapid.SampledFrom(stdErrNames).Draw(t, "std") + `","parameters":` + rapid.SampledFrom([]string{`{"method":"m"}`, `{"interface":"i"}`, `{"parameter":"p"}`, `{}`, `null`, `{"method":1}`, `"str"`, `{"method":"m","interface":"i","parameter":"p"}`}).Draw(t, "stdp") + `}`)
		}
		b.Write(f)
		if i < n-1 || rapid.IntRange(0, 3).Draw(t, "term") != 0 {
			b.WriteByte(0)
		}
	}
	return b.Bytes()
}

func genC11(t *rapid.T) C11Case {
	c := C11Case{Method: "x.y.M", AbortAt: -1, Transport: "pipe", Origin: "C11"}
	if rapid.IntRange(0, 6).Draw(t, "unix") == 0 {
		c.Transport = "unix"
	}
	if rapid.Bool().Draw(t, "hasparams") {
		c.Params = genDoc(t, "cp")
	}
	c.Flags = uint64(rapid.SampledFrom([]int{0, 0, 0, varlink.More, varlink.More, varlink.Oneway, varlink.Upgrade, varlink.Continues, varlink.More | varlink.Continues, varlink.Oneway | varlink.Upgrade,
		varlink.More | varlink.Oneway, varlink.More | varlink.Upgrade, 15, 11}).Draw(t, "flags"))
	c.Method = rapid.SampledFrom([]string{"x.y.M", "", "org.varlink.service.GetInfo", "é.\"\x00", "a"}).Draw(t, "method")
	c.Reply = genC11Reply(t)
	switch rapid.IntRange(0, 5).Draw(t, "api") {
	case 0:
		c.API, c.Flags = "upgrade", varlink.Upgrade
	case 1:
		c.API, c.Flags = "call", 0
	case 2:
		if rapid.Bool().Draw(t, "wrapper") {
			c.API, c.Flags, c.Method, c.Params = "getinfo", 0, "org.varlink.service.GetInfo", nil
		} else {
			c.API, c.Flags, c.Method, c.Params = "getdesc", 0, "org.varlink.service.GetInterfaceDescription", json.RawMessage(`{"interface":"x.y"}`)
		}
	}
	frames, _ := SplitFrames(c.Reply)
	c.Receives = len(frames) + rapid.IntRange(0, 1).Draw(t, "extra")
	if rapid.IntRange(0, 2).Draw(t, "abort") == 0 && len(c.Reply) > 0 {
		c.AbortAt = rapid.IntRange(0, len(c.Reply)).Draw(t, "abort_at")
	}
	c.Cuts = genCuts(t, c.Reply)
	return c
}

func checkC11(c C11Case, st *Stats) error {
	SavePending("C11", "C11", c)
	facts, err := execC11(c, protoBound)
	ClearPending()
	nt := facts["eof-inside-frame"] || facts["wrong-shape"] || facts["error-frame"] || facts["forbidden-flags"]
	labels := []string{"transport:" + c.Transport}
	for k, v := range facts {
		if v {
			labels = append(labels, k)
		}
	}
	sortStrings(labels)
	st.Case(HashOf(c), nt, func() interface{} { return c }, labels...)
	return err
}

func sortStrings(s []string) {
	for i := 1; i < len(s); i++ {
		for j := i; j > 0 && s[j] < s[j-1]; j-- {
			s[j], s[j-1] = s[j-1], s[j]
		}
	}
}

var propC11 = Register(Prop[C11Case]{ID: "C11", Name: "C11", Pending: true, Check: checkC11})

func TestC11Rapid(t *testing.T) {
	p := propC11
	p.Gen = genC11
	RunRapid(t, p, "C11Rapid")
}

// TestC11Enum: (a) all 16 flag words x {nil, object} parameters (exhaustive); (b) every constant
// reply frame alone and followed by a valid frame; (c) a server abort at every byte offset of
// fixed reply streams.
func TestC11Enum(t *testing.T) {
	var cases []C11Case
	okReply := []byte(`{"parameters":{"ok":true}}` + "\x00")
	for f := uint64(0); f < 16; f++ {
		for _, p := range []json.RawMessage{nil, json.RawMessage(`{"a":[1,2,{"b":null}],"n":12345678901234567890123}`)} {
			rc := 1
			if f&varlink.Oneway != 0 {
				rc = 0
			}
			for _, tr := range []string{"pipe", "unix"} {
				cases = append(cases, C11Case{Method: "x.y.Flags", Params: p, Flags: f, Reply: okReply, AbortAt: -1, Receives: rc, Transport: tr, Origin: "C11Enum-flags"})
			}
		}
	}
	for _, k := range c11ReplyConsts {
		cases = append(cases, C11Case{Method: "x.y.M", Reply: Blob(k + "\x00"), AbortAt: -1, Receives: 2, Transport: "pipe", Origin: "C11Enum-const"})
		cases = append(cases, C11Case{Method: "x.y.M", Reply: Blob(k + "\x00" + string(okReply)), AbortAt: -1, Receives: 3, Transport: "pipe", Cuts: []int{3}, Origin: "C11Enum-const"})
	}
	streams := []string{
		`{"parameters":{"i":0},"continues":true}` + "\x00" + `{"parameters":{"i":1},"continues":true}` + "\x00" + `{"parameters":{"last":"é😀\u0000"}}` + "\x00",
		`{"error":"org.varlink.service.InvalidParameter","parameters":{"parameter":"p"}}` + "\x00" + `{"parameters":{}}` + "\x00",
		`null` + "\x00" + `{"error":"x.y.E","parameters":{"k":[1,2,3]}}` + "\x00",
	}
	for _, s := range streams {
		fr, _ := SplitFrames([]byte(s))
		for off := 0; off <= len(s); off++ {
			tr := "pipe"
			if off%4 == 3 {
				tr = "unix"
			}
			var cuts []int
			if off%2 == 1 {
				cuts = []int{1}
			}
			cases = append(cases, C11Case{Method: "x.y.M", Flags: varlink.More, Reply: Blob(s), AbortAt: off, Receives: len(fr) + 1, Transport: tr, Cuts: cuts, Origin: "C11Enum-abort"})
		}
	}
	// long-lived connections: 24 MiB (thorough: up to 80 MiB) in frames of 64-512 KiB
	longs := [][2]int{{96, 256}, {400, 64}}
	if Thorough() {
		longs = append(longs, [2]int{160, 512}, [2]int{1300, 64})
	}
	for _, l := range longs {
		for _, tr := range []string{"unix", "pipe"} {
			cases = append(cases, C11Case{Method: "x.y.Stream", Flags: varlink.More, AbortAt: -1, Receives: l[0] + 1, Transport: tr, Origin: "C11Enum-long", LongN: l[0], LongKiB: l[1]})
		}
	}
	shard, nshards := Shard()
	i := 0
	next := func() (C11Case, bool) {
		for i < len(cases) {
			k := i
			i++
			if k%nshards == shard {
				return cases[k], true
			}
		}
		return C11Case{}, false
	}
	RunCases(t, propC11, "C11Enum", true, next)
}

// FuzzC11: the fuzzer's bytes are the server's reply stream (first byte: cut size, second: abort selector).
func FuzzC11(f *testing.F) {
	for _, k := range c11ReplyConsts {
		f.Add(append([]byte{0, 0}, []byte(k+"\x00")...))
		f.Add(append([]byte{1, 200}, []byte(k+"\x00"+`{"parameters":{}}`+"\x00")...))
	}
	st := NewStats("FuzzC11")
	f.Fuzz(func(t *testing.T, b []byte) {
		if len(b) < 2 || len(b) > 8192 {
			return
		}
		cut, ab, stream := int(b[0]), int(b[1]), b[2:]
		fr, _ := SplitFrames(stream)
		c := C11Case{Method: "x.y.M", Flags: varlink.More, Reply: Blob(stream), AbortAt: -1, Receives: len(fr) + 1, Transport: "pipe", Origin: "fuzz"}
		if cut > 0 {
			c.Cuts = []int{cut}
		}
		if ab >= 128 && len(stream) > 0 {
			c.AbortAt = (ab - 128) * len(stream) / 127
		}
		if err := Guard(func() error { return checkC11(c, st) }); err != nil {
			SaveFailing("C11", "C11", c, err.Error())
			t.Fatalf("C11 violated: %v", err)
		}
	})
}
