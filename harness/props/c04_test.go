package props

// C04 Method routing and the standard error replies.
//
// Case = one connection to a service with a generated registry; each call's method
// string is derived from the registered names by structural edits (or arbitrary).
// The oracle is ModelConn (Route: split at the last '.'), the observations are the
// reply frames and the per-interface invocation log (ExecProto).

import (
	"encoding/json"
	"fmt"
	"strings"
	"testing"
	"unicode/utf8"

	"pgregory.net/rapid"
)

var dottedLabels = []string{"a", "b", "com", "example", "org", "varlink", "service", "Test", "x-y", "é", "Ω", "A", "0", "service2", "servic", "ORG"}

// genIfaceName draws a registrable interface name (any non-empty string is accepted by
// RegisterInterface; "org.varlink.service" itself is always registered and excluded).
func genIfaceName(t *rapid.T, have []string) string {
	var s string
	switch rapid.IntRange(0, 9).Draw(t, "ifkind") {
	case 0, 1, 2, 3:
		n := rapid.IntRange(2, 4).Draw(t, "iflabels")
		parts := make([]string, n)
		for i := range parts {
			parts[i] = rapid.SampledFrom(dottedLabels).Draw(t, "iflabel")
		}
		s = strings.Join(parts, ".")
	case 4:
		if len(have) > 0 { // extension of an existing name
			s = rapid.SampledFrom(have).Draw(t, "ifbase") + "." + rapid.SampledFrom(dottedLabels).Draw(t, "ifext")
		} else {
			s = "a.b"
		}
	case 5:
		if len(have) > 0 { // prefix of an existing name
			b := rapid.SampledFrom(have).Draw(t, "ifbase")
			if i := strings.LastIndex(b, "."); i > 0 {
				s = b[:i]
			} else {
				s = b + "x"
			}
		} else {
			s = "a"
		}
	case 6:
		s = rapid.SampledFrom([]string{"org.varlink.servicex", "org.varlink.service.x", "org.varlink", "org.varlink.service2", "xorg.varlink.service", "Org.Varlink.Service", "org.varlink.service."}).Draw(t, "ifnear")
	case 7:
		s = rapid.SampledFrom([]string{"a", ".a", "a.", "a..b", ".", "..", "a.b.", " a.b", "a.b ", "a b"}).Draw(t, "ifodd")
	case 8:
		s = string(genRunes(t, "ifr", 8))
	default:
		s = rapid.SampledFrom(c01IfacePool).Draw(t, "ifpool")
	}
	if s == "" || s == "org.varlink.service" || !utf8.ValidString(s) {
		s = "fallback.name"
	}
	return s
}

// genMethodString derives a method string from the registry.
func genMethodString(t *rapid.T, reg []string) string {
	bases := append([]string{"org.varlink.service", "no.such.iface"}, reg...)
	base := rapid.SampledFrom(bases).Draw(t, "mbase")
	meth := rapid.SampledFrom([]string{"M", "Ping", "GetInfo", "GetInterfaceDescription", "x", "", "É", "M N", "0"}).Draw(t, "mname")
	full := base + "." + meth
	switch rapid.IntRange(0, 17).Draw(t, "medit") {
	case 0, 1, 2, 3, 4:
		return full
	case 16, 17: // a long interface part or method name (echoed in full by the error replies), ASCII or multi-byte
		unit := rapid.SampledFrom([]string{"a", "Ab0", "é", "€x", "😀", "long-"}).Draw(t, "munit")
		n := rapid.SampledFrom([]int{254, 255, 256, 257, 300, 1000, 5000}).Draw(t, "mlen")
		long := strings.Repeat(unit, n/len(unit)+1)
		for !utf8.ValidString(long[:n]) {
			n++
		}
		long = long[:n]
		switch rapid.IntRange(0, 2).Draw(t, "mwhere") {
		case 0:
			return long + "." + meth // unknown interface
		case 1:
			return base + "." + long // unknown method of a known or unknown interface
		default:
			return "pre." + long + ".Sub." + meth
		}
	case 5: // drop a dot
		if i := strings.Index(full, "."); i >= 0 {
			k := rapid.IntRange(0, strings.Count(full, ".")-1).Draw(t, "mdot")
			idx := nthIndex(full, '.', k)
			return full[:idx] + full[idx+1:]
		}
		return full
	case 6: // duplicate a dot
		k := rapid.IntRange(0, strings.Count(full, ".")-1).Draw(t, "mdot")
		idx := nthIndex(full, '.', k)
		return full[:idx] + "." + full[idx:]
	case 7:
		return "." + full
	case 8:
		return full + "."
	case 9:
		return base // the interface name alone: its last label becomes the method
	case 10:
		return full + "." + rapid.SampledFrom([]string{"M", "x", "GetInfo"}).Draw(t, "mextra")
	case 11: // case change
		if rapid.Bool().Draw(t, "mup") {
			return strings.ToUpper(base) + "." + meth
		}
		return strings.ToLower(base) + "." + meth
	case 12: // insert a rune somewhere
		rs := []rune(full)
		p := rapid.IntRange(0, len(rs)).Draw(t, "mpos")
		r := rapid.SampledFrom([]rune{'.', 'x', ' ', 0, 'é', '​', '/'}).Draw(t, "mrune")
		return string(rs[:p]) + string(r) + string(rs[p:])
	case 13: // delete a rune
		rs := []rune(full)
		if len(rs) == 0 {
			return full
		}
		p := rapid.IntRange(0, len(rs)-1).Draw(t, "mpos")
		return string(rs[:p]) + string(rs[p+1:])
	case 14:
		return rapid.SampledFrom([]string{"", ".", "..", "M", ".M", "a.", "org.varlink.service", "org.varlink.service.", "org.varlink.service..GetInfo", "org.varlink.service.GetInfo.", ".org.varlink.service.GetInfo"}).Draw(t, "mconst")
	default:
		s := string(genRunes(t, "mr", 10))
		if !utf8.ValidString(s) {
			return "x"
		}
		return s
	}
}

func nthIndex(s string, c byte, k int) int {
	for i := 0; i < len(s); i++ {
		if s[i] == c {
			if k == 0 {
				return i
			}
			k--
		}
	}
	return len(s) - 1
}

var wrongShapeFrames = []string{`{}`, `null`, `{"method":null}`, `{"parameters":{}}`, `{"method":""}`, `{"Method":"x.y.M"}`,
	`{"method":1}`, `{"method":["x.y.M"]}`, `{"method":{"a":"x.y.M"}}`, `{"method":true}`, `[]`, `["x.y.M"]`, `1`, `"x.y.M"`, `true`,
	`{"method":"x.y.M","more":"yes"}`, `{"method":"x.y.M","oneway":1}`, `{"method":"x.y.M","parameters":"str"}`, `{"method":"x.y.M","parameters":[1]}`,
	`{"method":"x.y.M"`, `{"method":"x.y.M"}}`, ``, ` `, `{"method":"x.y.M",}`, `{'method':'x.y.M'}`}

func replyIDScript(conn, id int) []byte {
	sp := ScriptParams{Conn: conn, ID: id, Script: []Op{{Op: "reply", P: json.RawMessage(fmt.Sprintf(`{"id":%d}`, id))}}}
	b, _ := json.Marshal(sp)
	return b
}

func genC04(t *rapid.T) ProtoCase {
	n := rapid.IntRange(0, 5).Draw(t, "nreg")
	var reg []string
	seen := map[string]bool{}
	for i := 0; i < n; i++ {
		s := genIfaceName(t, reg)
		if !seen[s] {
			seen[s] = true
			reg = append(reg, s)
		}
	}
	c := ProtoCase{Ifaces: reg, Transport: "pipe", Origin: "C04"}
	if rapid.IntRange(0, 19).Draw(t, "unix") == 0 {
		c.Transport = "unix"
	}
	cc := ConnCase{AbortAt: -1}
	ncalls := rapid.IntRange(1, 10).Draw(t, "ncalls")
	for i := 0; i < ncalls; i++ {
		if rapid.IntRange(0, 9).Draw(t, "shape") == 0 {
			f := rapid.SampledFrom(wrongShapeFrames).Draw(t, "wrong")
			if len(reg) > 0 {
				f = strings.ReplaceAll(f, "x.y.M", reg[0]+".M")
			}
			cc.Frames = append(cc.Frames, Blob(f))
			continue
		}
		m := genMethodString(t, reg)
		var p []byte
		if rapid.IntRange(0, 5).Draw(t, "nop") != 0 {
			p = replyIDScript(0, i)
		}
		flags := rapid.IntRange(0, 15).Draw(t, "flags") // mostly plain
		// (routing depends on the method string alone: also for the flag combinations a Go client never sends)
		cc.Frames = append(cc.Frames, EncodeCall(m, p, flags == 1 || flags == 4 || flags == 5 || flags == 7, flags == 2 || flags == 4 || flags == 6 || flags == 7, flags == 3 || flags == 5 || flags == 6 || flags == 7))
	}
	cc.Cuts = genCuts(t, cc.stream())
	c.Conns = []ConnCase{cc}
	return c
}

func c04NonTrivial(c ProtoCase) (bool, []string) {
	nt := false
	var labels []string
	seenL := map[string]bool{}
	add := func(l string) {
		if !seenL[l] {
			seenL[l] = true
			labels = append(labels, l)
		}
	}
	cfg := SvcConfig{Ifaces: c.Ifaces}
	for _, cc := range c.Conns {
		for _, f := range cc.Frames {
			var wc wireCall
			if err := json.Unmarshal(f, &wc); err != nil {
				add("frame:undecodable")
				continue
			}
			m := wc.Method
			kind, iface, _ := Route(m)
			switch {
			case kind == "invalid":
				add("route:invalid")
			case kind == "service":
				add("route:service")
			case cfg.registered(iface):
				add("route:dispatch")
			default:
				add("route:ifnotfound")
			}
			dots := strings.Count(m, ".")
			emptyPart := strings.HasPrefix(m, ".") || strings.HasSuffix(m, ".") || strings.Contains(m, "..")
			near := false
			for _, r := range append([]string{"org.varlink.service"}, c.Ifaces...) {
				if m != r+".M" && editDistanceLE1(iface, r) && iface != r {
					near = true
				}
			}
			if dots >= 2 || emptyPart || near {
				nt = true
			}
			if near {
				add("near-miss")
			}
			if emptyPart {
				add("empty-part")
			}
		}
	}
	return nt, labels
}

func editDistanceLE1(a, b string) bool {
	ra, rb := []rune(a), []rune(b)
	if len(ra) > len(rb) {
		ra, rb = rb, ra
	}
	if len(rb)-len(ra) > 1 {
		return false
	}
	i := 0
	for i < len(ra) && ra[i] == rb[i] {
		i++
	}
	if len(ra) == len(rb) {
		return string(ra[min(i+1, len(ra)):]) == string(rb[min(i+1, len(rb)):])
	}
	return string(ra[i:]) == string(rb[i+1:])
}

func checkC04(c ProtoCase, st *Stats) error {
	_, err := ExecProto(c, protoBound)
	nt, labels := c04NonTrivial(c)
	labels = append(labels, "transport:"+c.Transport, fmt.Sprintf("registered:%d", len(c.Ifaces)))
	st.Case(HashOf(c), nt, func() interface{} { return c }, labels...)
	return err
}

var propC04 = Register(Prop[ProtoCase]{ID: "C04", Name: "C04", Pending: true, Check: checkC04})

func TestC04Rapid(t *testing.T) {
	p := propC04
	p.Gen = genC04
	RunRapid(t, p, "C04Rapid")
}

// TestC04Enum: every string of length <= 5 (6 in the thorough tier) over {a, b, .} as a method
// string, against every subset of a 4-name registry whose members are prefixes and
// extensions of one another. One connection per (subset, block of strings).
func TestC04Enum(t *testing.T) {
	maxLen := 5
	if Thorough() {
		maxLen = 6
	}
	var strs []string
	var rec func(cur string)
	rec = func(cur string) {
		strs = append(strs, cur)
		if len(cur) == maxLen {
			return
		}
		for _, ch := range "ab." {
			rec(cur + string(ch))
		}
	}
	rec("")
	regAll := []string{"a", "a.b", "a.b.a", "b."}
	shard, nshards := Shard()
	const block = 64
	nblocks := (len(strs) + block - 1) / block
	total := 16 * nblocks
	i := 0
	next := func() (ProtoCase, bool) {
		for i < total {
			k := i
			i++
			if k%nshards != shard {
				continue
			}
			sub, blk := k/nblocks, k%nblocks
			var reg []string
			for j, r := range regAll {
				if sub&(1<<j) != 0 {
					reg = append(reg, r)
				}
			}
			cc := ConnCase{AbortAt: -1}
			for j := blk * block; j < (blk+1)*block && j < len(strs); j++ {
				cc.Frames = append(cc.Frames, EncodeCall(strs[j], replyIDScript(0, j), false, false, false))
			}
			return ProtoCase{Ifaces: reg, Conns: []ConnCase{cc}, Transport: "pipe", Origin: "C04Enum"}, true
		}
		return ProtoCase{}, false
	}
	p := propC04
	p.Check = func(c ProtoCase, st *Stats) error {
		_, err := ExecProto(c, protoBound)
		nt, labels := c04NonTrivial(c)
		st.Case(HashOf(c), nt, func() interface{} { return c }, labels...)
		st.Count("method-strings", int64(len(c.Conns[0].Frames)))
		return err
	}
	RunCases(t, p, "C04Enum", true, next)
}
