package props

// Self-checks of the IDL reference models, independent of /repo. A failure here is a
// harness bug (exit 2), never a VIOLATION.

import (
	"testing"

	"pgregory.net/rapid"
)

var illFormed = []string{
	"", "interface", "interface a", "interface a.b", "interface a.b\n", "interface a.b\ntype T ()", // no method
	"interface a.b\nmethod F()", "interface a.b\nmethod F->()", "interface a.b\nmethod F()()", "interface a.b\nmethod F() > ()",
	"interface a.b\nmethod F(->()", "interface a.b\nmethod F())->()", "interface a.b\nmethod F()->(", "interface a.b\nmethod F()->())",
	"interface a.b\nmethod F(a:)->()", "interface a.b\nmethod F(a int)->()", "interface a.b\nmethod F(a:int,)->()",
	"interface a.b\nmethod F(a:[int]string)->()", "interface a.b\nmethod F(a:[string)->()", "interface a.b\nmethod F(a:??int)->()",
	"interface a.b\nmethod F(a:int, b)->()", "interface a.b\nmethod F(a, b:int)->()", "interface a.b\nmethod F()->()\ngarbage",
	"interface a.b\nmethod F()->()\n#\ngarbage here\n", "interface a.b\nmethod F()->()\nerror E (", "interface a.b\nmethod F()->()\nerror E ?",
	"interface a.b\nmethod F()->()\nerror E [string]", "interface a.b\nmethod F()->()\ntype (a:int)", "interface a.b\nmethod F()->()\nerror (a:int)",
	"interface a.b\nmethod F(9a:int)->()", "interface a.b\nmethod F(a-b:int)->()", "interface a..b\nmethod F()->()", "interface .a.b\nmethod F()->()",
	"interface a.b\nmethod F()->()\x00", "interface a.b\nmethod F()->();", "a.b\nmethod F()->()", "interface a.b\nfoo F()->()",
	"interface a.b\nmethod F(a:?)->()", "interface a.b\nmethod F(a:[])->()", "interface a_b.c\nmethod F()->()",
}

var wellFormedLiberal = []string{
	"interface a.b\nmethod F()->()", "interface a.b method F()->()", "interface a.b\nmethodF()->()", "interface a.b\nmethod F ( ) -> ( )",
	"interface a.b\nerror E\nmethod F()->()", "interface a.b\nerror E int\nmethod F()->()", "interface a.b\nmethod F int -> string",
	"interface a.b\ntype T int\nmethod F()->()", "# c\ninterface a.b # d\n#\nmethod F(#x\n)->()#", "interface a.b\nmethod F(a:[ string ]?[ ]T)->()",
	"interface 1a.b-\nmethod F()->()", "interface a.b\nmethod F(A:int)->()", "interface a.b\nmethod F(_a:int)->()",
}

func TestSelfIDL(t *testing.T) {
	for _, s := range illFormed {
		if ok, _ := IDLLiberal(s); ok {
			t.Errorf("HARNESS: IDLLiberal accepts ill-formed %q", s)
		}
	}
	for _, s := range wellFormedLiberal {
		if ok, _ := IDLLiberal(s); !ok {
			t.Errorf("HARNESS: IDLLiberal rejects %q", s)
		}
	}
	// injectivity of normalise∘print and liberal acceptance on the enumerated trees under all fixed layouts
	seen := map[string]int{}
	stride := 7
	EnumIfaces(3, func(idx int, i *Iface) bool {
		if idx%stride != 0 {
			return true
		}
		n := IDLNormalise(PrintCompact(i))
		if j, dup := seen[n]; dup {
			t.Fatalf("HARNESS: trees %d and %d print to the same normal form %q", j, idx, n)
		}
		seen[n] = idx
		i.DocMode = "block"
		i.Doc = []string{"d"}
		for k := range i.Members {
			i.Members[k].DocMode = []string{"none", "block", "free"}[k%3]
			i.Members[k].Doc = []string{"x", "", "y"}
		}
		for l := FixedLayout(0); l < NumFixedLayouts; l++ {
			s := Render(i, l)
			if ok, _ := IDLLiberal(s); !ok {
				t.Fatalf("HARNESS: IDLLiberal rejects valid description (layout %d):\n%s", l, s)
			}
			if IDLNormalise(s) != n {
				t.Fatalf("HARNESS: layout %d changes the normal form:\n%s\n%q vs %q", l, s, IDLNormalise(s), n)
			}
		}
		return true
	})
	// random trees and layouts
	rapid.Check(t, func(rt *rapid.T) {
		i := GenIface(rt, 6)
		s := Render(i, RapidLayout{T: rt, EOL: "\n"})
		if ok, _ := IDLLiberal(s); !ok {
			rt.Fatalf("HARNESS: IDLLiberal rejects generated valid description:\n%s", s)
		}
		if IDLNormalise(s) != IDLNormalise(PrintCompact(i)) {
			rt.Fatalf("HARNESS: random layout changes the normal form:\n%s", s)
		}
	})
}
