package props

// C12 Error replies keep their name and parameters end to end.

import (
	"encoding/json"
	"strings"
	"testing"
	"unicode/utf8"

	"pgregory.net/rapid"
)

var reservedNear = []string{"org.varlink.service", "org.varlink.servicex", "org.varlink.service.x", "org.varlink.service.sub.deep", "org.varlink.services",
	"org.varlink.servic", "org.varlink", "xorg.varlink.service", "org.varlink.service_", "Org.Varlink.Service", "org.varlink.service ", " org.varlink.service",
	"org.varlink.servicemanager", "org.varlink.service.MethodNotFound", "org..varlink.service", "org.varlink.service."}

var stdErrNames = []string{"InterfaceNotFound", "MethodNotFound", "MethodNotImplemented", "InvalidParameter"}

// genErrorName draws an error name: ordinary, near the reserved namespace, structurally odd, or arbitrary.
func genErrorName(t *rapid.T) string {
	switch rapid.IntRange(0, 11).Draw(t, "ekind") {
	case 0, 1, 2:
		return rapid.SampledFrom([]string{"com.example.a.Failed", "x.E", "a.b.c.d.e.f.E", "x.y.E", "é.ü.Ω", "a.b.E rror", "x.0"}).Draw(t, "eplain")
	case 3, 4: // near the reserved namespace, with a standard or other error name
		base := rapid.SampledFrom(reservedNear).Draw(t, "ebase")
		nm := rapid.SampledFrom(append([]string{"E", "Custom", "x", "é"}, stdErrNames...)).Draw(t, "ename")
		return base + "." + nm
	case 5: // reserved: must be refused
		return "org.varlink.service." + rapid.SampledFrom(append([]string{"Custom", "x"}, stdErrNames...)).Draw(t, "eres")
	case 6: // no interface part: must be refused
		return rapid.SampledFrom([]string{"Failed", "", ".E", ".", "E rror", "é", ".org.varlink.service"}).Draw(t, "enodot")
	case 7: // standard error name under another interface
		return rapid.SampledFrom([]string{"x.y", "com.example", "org.varlink.resolver", "org.varlink.service2"}).Draw(t, "eif") + "." + rapid.SampledFrom(stdErrNames).Draw(t, "estd")
	case 8: // dots in odd places
		return rapid.SampledFrom([]string{"a..E", "a.b..E", "..E", "a...b.E", "a.b.E.", "a.", "org.varlink.service.", "a.b.", "x..", "a. .E"}).Draw(t, "eodd")
	case 9:
		s := string(genRunes(t, "er", 12))
		if utf8.ValidString(s) {
			return s
		}
		return "x.E"
	case 10: // long
		return strings.Repeat("a.", rapid.IntRange(50, 3000).Draw(t, "elong")) + "E"
	default:
		return "x.y.E"
	}
}

func c12Sanitize(c *E2ECase) (dontcare bool) { return sanitizeDontCare(c, true) }

// sanitizeDontCare rewrites error names with an empty <Name> part to an ordinary name (all of them, or all but the first).
func sanitizeDontCare(c *E2ECase, keepFirst bool) (dontcare bool) {
	dontcare = !keepFirst
	for si := range c.Steps {
		var sp ScriptParams
		if c.Steps[si].Params == nil || json.Unmarshal(c.Steps[si].Params, &sp) != nil {
			continue
		}
		changed := false
		for oi := range sp.Script {
			if sp.Script[oi].Op == "error" && ErrorNameClass(sp.Script[oi].Name) == "dontcare" {
				if dontcare {
					sp.Script[oi].Name = "x.y.E"
					changed = true
				}
				dontcare = true
			}
		}
		if changed {
			b, _ := json.Marshal(sp)
			c.Steps[si].Params = b
		}
	}
	return dontcare && keepFirst
}

func c12Facts(c E2ECase) (nt bool, labels []string) {
	for _, st := range c.Steps {
		var sp ScriptParams
		if st.Params == nil || json.Unmarshal(st.Params, &sp) != nil {
			continue
		}
		for _, op := range sp.Script {
			switch op.Op {
			case "error":
				cls := ErrorNameClass(op.Name)
				labels = append(labels, "name:"+cls)
				near := false
				for _, r := range reservedNear {
					if strings.HasPrefix(op.Name, r) && cls == "accept" {
						near = true
					}
				}
				if near {
					labels = append(labels, "name:near-reserved")
				}
				if strings.Count(op.Name, ".") >= 2 || near || (op.P != nil && string(op.P) != "{}" && string(op.P) != "null") {
					nt = true
				}
			case "ifnotfound", "methodnotfound", "notimpl", "invalidparam":
				labels = append(labels, "helper:"+op.Op)
				nt = true
			}
		}
	}
	return nt, dedupe(labels)
}

func checkC12(c E2ECase, st *Stats) error {
	dc := c12Sanitize(&c)
	if dc && !c.EmptyNameRefused {
		// which reading to try first is only a matter of speed (a wrong first guess costs a time-out): either is accepted
		for _, s := range c.Steps {
			if strings.Contains(string(s.Params), `"name":"org.varlink.service."`) {
				c.EmptyNameRefused = true
			}
		}
	}
	out, err := ExecE2E(c, protoBound)
	if err != nil && dc && !strings.HasPrefix(err.Error(), "HARNESS") {
		// an error name with an empty <Name> part may be sent or refused; try the other reading
		c2 := c
		c2.EmptyNameRefused = !c.EmptyNameRefused
		if _, err2 := ExecE2E(c2, protoBound); err2 == nil {
			st.Count("empty-name-refused-reading", 1)
			err = nil
		}
	}
	nt, labels := c12Facts(c)
	labels = append(labels, "transport:"+c.Transport)
	if out != nil {
		st.Count("comparisons", int64(out.Comparisons))
		st.Count("error-replies", int64(out.Errors))
	}
	st.Case(HashOf(c), nt, func() interface{} { return c }, labels...)
	return err
}

var propC12 = Register(Prop[E2ECase]{ID: "C12", Name: "C12", Pending: true, Check: checkC12})

func TestC12Rapid(t *testing.T) {
	p := propC12
	p.Gen = func(t *rapid.T) E2ECase {
		c := genE2ECase(t, "C12", true)
		if rapid.IntRange(0, 3).Draw(t, "pipeonly") != 0 {
			c.Transport = "pipe"
		}
		return c
	}
	RunRapid(t, p, "C12Rapid")
}

// TestC12Names: a fixed, systematically built list of error names (all reserved-namespace near
// misses x all standard and custom last parts x plain/more calls x with/without parameters), each
// sent through ReplyError and read back by the client (bounded-exhaustive over the list).
func TestC12Names(t *testing.T) {
	var names []string
	lasts := append([]string{"E", "", "x.E"}, stdErrNames...)
	for _, b := range append(append([]string{}, reservedNear...), "x", "x.y", "", ".", "a..b") {
		for _, l := range lasts {
			names = append(names, b+"."+l)
		}
		names = append(names, b)
	}
	// one name per character class that JSON string syntax treats specially or that other quoting schemes spell differently
	for _, r := range []rune{0x00, 0x01, 0x07, 0x08, 0x0b, 0x0c, 0x1b, 0x1f, 0x7f, 0x80, 0x9f, 0xa0, 0xad, '"', '\\', '/', '<', '>', '&', '\'', 0x2028, 0x2029, 0xfeff, 0xfffd, 0xffff, 0xe0001, 0x10ffff, 'é', 0x1F600} {
		names = append(names, "x.y.E"+string(r), "a"+string(r)+"b.E")
	}
	params := []string{"", `{}`, `{"method":"m","interface":"i","parameter":"p","extra":[1,2,{"k":9007199254740993}]}`, `{"parameter":17}`}
	shard, nshards := Shard()
	i := 0
	// the handler's own interface must not matter: names in or near the reserved namespace are also sent by handlers of
	// interfaces that are parents / near misses of it ("org.varlink", "org", ...)
	type pair struct{ iface, name string }
	var pairs []pair
	for _, n := range names {
		pairs = append(pairs, pair{"x.y", n})
		if strings.HasPrefix(n, "org.varlink") || strings.HasPrefix(n, "org.") {
			for _, hi := range []string{"org.varlink", "org", "org.varlink.servic", "org.varlink.service.sub"} {
				pairs = append(pairs, pair{hi, n})
			}
		}
	}
	total := len(pairs) * len(params) * 2
	next := func() (E2ECase, bool) {
		for i < total {
			k := i
			i++
			if k%nshards != shard {
				continue
			}
			pr := pairs[k/(len(params)*2)]
			name := pr.name
			p := params[(k/2)%len(params)]
			more := k%2 == 1
			op := Op{Op: "error", Name: name}
			if p != "" {
				op.P = json.RawMessage(p)
			}
			if gk := []string{"", "", "struct", "ptr", "named", "map", "typed"}[k%7]; gk != "" && p == "{}" {
				op.Go, op.P = gk, GoValueJSON(gk) // the same parameters as a typed Go value
			}
			sp := ScriptParams{Conn: 0, ID: k, Script: []Op{op, {Op: "reply", P: json.RawMessage(`{"after":true}`)}}}
			if more {
				sp.Script = append([]Op{{Op: "reply", Continues: true, P: json.RawMessage(`{"first":1}`)}}, sp.Script...)
			}
			b, _ := json.Marshal(sp)
			st := Step{API: "send", Method: pr.iface + ".M", Params: b, More: more}
			return E2ECase{Ifaces: []string{pr.iface}, Transport: "pipe", Steps: []Step{st}, Origin: "C12Names"}, true
		}
		return E2ECase{}, false
	}
	RunCases(t, propC12, "C12Names", true, next)
}
