// Package props holds the executable form of the twenty varlink/go properties:
// generators, reference models, adapters around the real code, and one
// cNN_test.go per property.  This file is the shared bookkeeping: statistics
// written for the driver (evidence), capture of the failing case (replay), and
// the generic "generate → check" runner used by every rapid test.
package props

import (
	"encoding/json"
	"fmt"
	"hash/fnv"
	"os"
	"path/filepath"
	"runtime"
	"sort"
	"strconv"
	"strings"
	"sync"
	"testing"
	"time"

	"pgregory.net/rapid"
)

// ---------------------------------------------------------------------------
// environment handed in by the driver

func envInt(name string, def int) int {
	if v := os.Getenv(name); v != "" {
		if n, err := strconv.Atoi(v); err == nil {
			return n
		}
	}
	return def
}

// Tier is "quick" or "thorough".
func Tier() string {
	if os.Getenv("VERIF_TIER") == "thorough" {
		return "thorough"
	}
	return "quick"
}

// Thorough reports whether the thorough tier is running.
func Thorough() bool { return Tier() == "thorough" }

// Shard returns this process' shard index and the number of shards (enumerations
// are partitioned by it; rapid runs get a different seed per shard from the driver).
func Shard() (int, int) {
	n := envInt("VERIF_NSHARDS", 1)
	if n < 1 {
		n = 1
	}
	i := envInt("VERIF_SHARD", 0)
	if i < 0 || i >= n {
		i = 0
	}
	return i, n
}

// OutDir is the directory the driver collects (stats, failing case). Empty = none.
func OutDir() string { return os.Getenv("VERIF_OUT") }

// ---------------------------------------------------------------------------
// statistics

const maxTrackedHashes = 400000

// Stats accumulates what one test function covered.
type Stats struct {
	mu          sync.Mutex
	name        string
	Evaluations int64
	nontrivial  map[uint64]struct{}
	overflow    bool
	Labels      map[string]int64
	samples     []json.RawMessage
	sampleNT    []bool
	Exhaustive  bool
	Notes       []string
	start       time.Time
}

// NewStats creates a collector; name is used for the stats file name.
func NewStats(name string) *Stats {
	return &Stats{name: name, nontrivial: map[uint64]struct{}{}, Labels: map[string]int64{}, start: time.Now()}
}

// HashOf returns a 64-bit FNV hash of the JSON form of v (or of the string / bytes themselves).
func HashOf(v interface{}) uint64 {
	h := fnv.New64a()
	switch x := v.(type) {
	case string:
		h.Write([]byte(x))
	case []byte:
		h.Write(x)
	default:
		b, _ := json.Marshal(v)
		h.Write(b)
	}
	return h.Sum64()
}

// Count bumps a label counter.
func (s *Stats) Count(label string, n int64) {
	s.mu.Lock()
	s.Labels[label] += n
	s.mu.Unlock()
}

// Case records one evaluated case. sample may be nil; it is only marshalled when kept.
func (s *Stats) Case(hash uint64, nontrivial bool, sample func() interface{}, labels ...string) {
	s.mu.Lock()
	defer s.mu.Unlock()
	s.Evaluations++
	for _, l := range labels {
		s.Labels[l]++
	}
	if nontrivial {
		if len(s.nontrivial) < maxTrackedHashes {
			s.nontrivial[hash] = struct{}{}
		} else if _, ok := s.nontrivial[hash]; !ok {
			s.overflow = true
		}
	}
	if sample == nil {
		return
	}
	// keep up to 8 samples: the first three non-trivial ones, then replace slots at
	// evaluation counts that are powers of two so samples come from the whole run.
	n := s.Evaluations
	keep := false
	slot := -1
	if len(s.samples) < 3 && nontrivial {
		keep = true
	} else if n&(n-1) == 0 && (nontrivial || len(s.samples) == 0) {
		keep = true
		if len(s.samples) >= 8 {
			slot = 3 + int(n%5)
		}
	}
	if !keep {
		return
	}
	b, err := json.Marshal(sample())
	if err != nil {
		return
	}
	if len(b) > 2048 {
		b, _ = json.Marshal(map[string]interface{}{"truncated_json": string(b[:2000]), "full_len": len(b)})
	}
	if slot >= 0 && slot < len(s.samples) {
		s.samples[slot] = b
	} else if len(s.samples) < 8 {
		s.samples = append(s.samples, b)
	}
}

// Note adds a free-text remark to the evidence.
func (s *Stats) Note(format string, a ...interface{}) {
	s.mu.Lock()
	if len(s.Notes) < 50 {
		s.Notes = append(s.Notes, fmt.Sprintf(format, a...))
	}
	s.mu.Unlock()
}

type statsFile struct {
	Name        string            `json:"name"`
	Evaluations int64             `json:"evaluations"`
	Hashes      []uint64          `json:"nontrivial_hashes"`
	Overflow    bool              `json:"hash_overflow"`
	Labels      map[string]int64  `json:"labels"`
	Samples     []json.RawMessage `json:"samples"`
	Exhaustive  bool              `json:"exhaustive"`
	Notes       []string          `json:"notes"`
	WallS       float64           `json:"wall_s"`
	Completed   bool              `json:"completed"`
}

// Flush writes the stats file into the driver's output directory.
func (s *Stats) Flush(completed bool) {
	dir := OutDir()
	if dir == "" {
		return
	}
	s.mu.Lock()
	defer s.mu.Unlock()
	f := statsFile{Name: s.name, Evaluations: s.Evaluations, Overflow: s.overflow, Labels: s.Labels,
		Samples: s.samples, Exhaustive: s.Exhaustive && completed, Notes: s.Notes,
		WallS: time.Since(s.start).Seconds(), Completed: completed}
	for h := range s.nontrivial {
		f.Hashes = append(f.Hashes, h)
	}
	sort.Slice(f.Hashes, func(i, j int) bool { return f.Hashes[i] < f.Hashes[j] })
	b, _ := json.Marshal(f)
	os.WriteFile(filepath.Join(dir, "stats-"+s.name+".json"), b, 0o644)
}

// ---------------------------------------------------------------------------
// failing-case capture

// CaseFile is the on-disk replay format.
type CaseFile struct {
	Property string          `json:"property"`
	Test     string          `json:"test"`
	Message  string          `json:"message"`
	Case     json.RawMessage `json:"case"`
}

// SaveFailing writes the current failing case for the driver (overwritten on every
// failing execution; rapid's last failing execution is the shrunk one).
func SaveFailing(property, test string, c interface{}, msg string) {
	dir := OutDir()
	if dir == "" {
		return
	}
	b, err := json.Marshal(c)
	if err != nil {
		b, _ = json.Marshal(fmt.Sprintf("%#v", c))
	}
	out, _ := json.MarshalIndent(CaseFile{Property: property, Test: test, Message: msg, Case: b}, "", " ")
	os.WriteFile(filepath.Join(dir, "failing.json"), out, 0o644)
}

// SavePending records the case about to be executed, so that a crash of the whole process
// (a panic in a library goroutine cannot be recovered) still leaves a replayable case.
func SavePending(property, test string, c interface{}) {
	dir := OutDir()
	if dir == "" {
		return
	}
	b, err := json.Marshal(c)
	if err != nil {
		return
	}
	out, _ := json.Marshal(CaseFile{Property: property, Test: test, Message: "the process crashed while executing this case", Case: b})
	os.WriteFile(filepath.Join(dir, "pending.json"), out, 0o644)
}

// ClearPending removes the record written by SavePending.
func ClearPending() {
	if dir := OutDir(); dir != "" {
		os.Remove(filepath.Join(dir, "pending.json"))
	}
}

// panicFrames renders the panicking stack deterministically (no addresses, no
// goroutine ids), so that rapid sees the same message on every re-execution.
func panicFrames() string {
	pcs := make([]uintptr, 64)
	n := runtime.Callers(3, pcs)
	fr := runtime.CallersFrames(pcs[:n])
	var b strings.Builder
	k := 0
	for {
		f, more := fr.Next()
		if !strings.HasPrefix(f.Function, "runtime.") && !strings.Contains(f.Function, "props.Guard") {
			fmt.Fprintf(&b, "  %s (%s:%d)\n", f.Function, filepath.Base(f.File), f.Line)
			k++
		}
		if !more || k >= 12 || strings.Contains(f.Function, "verif/props.") {
			break
		}
	}
	return b.String()
}

// Guard runs f and converts a panic into an error carrying the stack.
func Guard(f func() error) (err error) {
	defer func() {
		if r := recover(); r != nil {
			if m, ok := r.(string); ok && strings.HasPrefix(m, "HARNESS") {
				err = fmt.Errorf("%s", m) // the harness could not do its job: inconclusive, never a violation
				return
			}
			err = fmt.Errorf("panic: %v\n%s", r, panicFrames())
		}
	}()
	return f()
}

// GuardBounded is Guard for calls that must also return: f runs in its own goroutine, and if it has not
// returned within the bound (times the watchdog scale) that is reported. The goroutine is abandoned.
func GuardBounded(what string, bound time.Duration, f func() error) error {
	bound *= WatchdogScale()
	ch := make(chan error, 1)
	go func() { ch <- Guard(f) }()
	select {
	case err := <-ch:
		return err
	case <-time.After(bound):
		return fmt.Errorf("%s did not return within %v", what, bound)
	}
}

// ---------------------------------------------------------------------------
// generic runner

// Prop describes one property over a serialisable case type.
type Prop[C any] struct {
	ID    string // property id, e.g. "C05"
	Name  string // test name, used for the stats file
	Gen   func(*rapid.T) C
	Check func(C, *Stats) error // must record the case in Stats itself
	// Pending: record the case on disk before executing it, so that a crash of the whole process (a panic in a
	// goroutine of the library or of generated code cannot be recovered) still leaves a replayable case.
	Pending bool
}

// RunRapid drives p with rapid; the number of checks and the seed come from the
// command line flags set by the driver.
func RunRapid[C any](t *testing.T, p Prop[C], statsName string) {
	st := NewStats(statsName)
	completed := false
	defer func() { st.Flush(completed) }()
	rapid.Check(t, func(rt *rapid.T) {
		c := p.Gen(rt)
		if p.Pending {
			SavePending(p.ID, p.Name, c)
		}
		err := Guard(func() error { return p.Check(c, st) })
		if p.Pending {
			ClearPending()
		}
		if err != nil {
			SaveFailing(p.ID, p.Name, c, err.Error())
			msg := err.Error()
			if len(msg) > 1500 {
				msg = msg[:1500] + "…"
			}
			// (the message must be a pure function of the case: rapid re-executes and compares it)
			rt.Fatalf("%s violated: %s", p.ID, msg)
		}
	})
	completed = !t.Failed()
}

// RunCases runs an explicit list/stream of cases (bounded-exhaustive enumeration,
// replay). next returns false when exhausted.
func RunCases[C any](t *testing.T, p Prop[C], statsName string, exhaustive bool, next func() (C, bool)) {
	st := NewStats(statsName)
	st.Exhaustive = exhaustive
	completed := false
	defer func() { st.Flush(completed) }()
	for {
		c, ok := next()
		if !ok {
			break
		}
		if p.Pending {
			SavePending(p.ID, p.Name, c)
		}
		err := Guard(func() error { return p.Check(c, st) })
		if p.Pending {
			ClearPending()
		}
		if err != nil {
			SaveFailing(p.ID, p.Name, c, err.Error())
			t.Fatalf("%s violated: %v", p.ID, err)
		}
	}
	completed = true
}

// ---------------------------------------------------------------------------
// replay registry: every Prop registers a decoder+checker under its Name; a saved
// case file names the Prop that produced it.

var replayers = map[string]func(json.RawMessage, *Stats) error{}

// Register makes p replayable (call from init()).
func Register[C any](p Prop[C]) Prop[C] {
	replayers[p.Name] = func(raw json.RawMessage, st *Stats) error {
		var c C
		if err := json.Unmarshal(raw, &c); err != nil {
			return fmt.Errorf("HARNESS: cannot decode case: %v", err)
		}
		return Guard(func() error { return p.Check(c, st) })
	}
	return p
}

// ReplayFiles returns the case files named by VERIF_REPLAY (':'-separated).
func ReplayFiles() []string {
	v := os.Getenv("VERIF_REPLAY")
	if v == "" {
		return nil
	}
	return filepath.SplitList(v)
}

// RunReplay re-executes the saved cases, bypassing rapid and the fuzzer. With
// repeat > 1 each case is executed that many times (schedule-dependent properties).
func RunReplay(t *testing.T, repeat int) {
	st := NewStats("Replay")
	completed := false
	defer func() { st.Flush(completed) }()
	for _, f := range ReplayFiles() {
		b, err := os.ReadFile(f)
		if err != nil {
			t.Fatalf("HARNESS replay %s: %v", f, err)
		}
		var cf CaseFile
		if err := json.Unmarshal(b, &cf); err != nil {
			t.Fatalf("HARNESS replay %s: %v", f, err)
		}
		r, ok := replayers[cf.Test]
		if !ok {
			t.Fatalf("HARNESS replay %s: unknown case kind %q", f, cf.Test)
		}
		fmt.Printf("REPLAY-START file=%s\n", f)
		for i := 0; i < repeat; i++ {
			st.Count("replayed", 1)
			if err := r(cf.Case, st); err != nil {
				fmt.Printf("REPLAY-FAIL file=%s property=%s\n%v\n", f, cf.Property, err)
				os.WriteFile(filepath.Join(OutDir(), "replayfail-"+filepath.Base(f)), []byte(err.Error()), 0o644)
				t.Errorf("%s violated on replay %s: %v", cf.Property, f, err)
				break
			}
		}
	}
	completed = true
}
