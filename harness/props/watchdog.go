package props

import (
	"fmt"
	"os"
	"sync"
	"time"
)

// A process-wide watchdog for CPU-bound operations that cannot be interrupted
// (the IDL parser): the operation runs in the calling goroutine; a background
// goroutine notices when it overstays, saves the case and exits the process with
// status 3.  The driver then replays the saved case in a fresh process with a
// three times larger bound before calling it a hang.

var wd struct {
	mu       sync.Mutex
	started  bool
	active   bool
	deadline time.Time
	onExpire func()
}

// WatchdogScale multiplies all bounds (VERIF_WD_SCALE, set by the driver on the confirming replay).
func WatchdogScale() time.Duration {
	return time.Duration(envInt("VERIF_WD_SCALE", 1))
}

// Watched runs f under the watchdog.
func Watched(bound time.Duration, onExpire func(), f func()) {
	wd.mu.Lock()
	if !wd.started {
		wd.started = true
		go func() {
			for {
				time.Sleep(200 * time.Millisecond)
				wd.mu.Lock()
				if wd.active && time.Now().After(wd.deadline) {
					cb := wd.onExpire
					wd.mu.Unlock()
					if cb != nil {
						cb()
					}
					fmt.Println("WATCHDOG-EXPIRED")
					os.Exit(3)
				}
				wd.mu.Unlock()
			}
		}()
	}
	wd.active = true
	wd.deadline = time.Now().Add(bound * WatchdogScale())
	wd.onExpire = onExpire
	wd.mu.Unlock()
	defer func() {
		wd.mu.Lock()
		wd.active = false
		wd.mu.Unlock()
	}()
	f()
}
