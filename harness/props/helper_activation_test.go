package props

import (
	"context"
	"fmt"
	"io"
	"os"
	"time"

	"github.com/varlink/go/varlink"
)

// helperActivation is the socket-activation child: it sets LISTEN_PID as instructed, calls
// Service.Listen with the fallback address, and shuts down when its stdin is closed.
func helperActivation() int {
	switch os.Getenv("VERIF_PID_MODE") {
	case "own":
		os.Setenv("LISTEN_PID", fmt.Sprint(os.Getpid()))
	case "other":
		os.Setenv("LISTEN_PID", fmt.Sprint(os.Getppid()))
	case "unset":
		os.Unsetenv("LISTEN_PID")
	default:
		os.Setenv("LISTEN_PID", os.Getenv("VERIF_PID_MODE")) // literal (garbage) value
	}
	svc, err := varlink.NewService(os.Getenv("VERIF_TOKEN"), "p", "1", "u")
	if err != nil {
		return 5
	}
	ctx, cancel := context.WithCancel(context.Background())
	defer cancel()
	done := make(chan error, 1)
	go func() { done <- svc.Listen(ctx, os.Getenv("VERIF_FALLBACK"), 0) }()
	stop := make(chan struct{})
	go func() { io.Copy(io.Discard, os.Stdin); close(stop) }()
	select {
	case err := <-done:
		fmt.Fprintf(os.Stderr, "LISTEN-RETURNED %v\n", err)
		return 6
	case <-stop:
	}
	svc.Shutdown()
	select {
	case <-done:
	case <-time.After(5 * time.Second):
		return 7
	}
	return 0
}
