package props

func helperActivation() int { return 4 } // replaced when C20 is built
