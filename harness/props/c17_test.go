package props

// C17 Context cancellation and deadlines unblock every I/O operation.
//
// The harness owns both ends: a real client Connection (unix, tcp, in-memory pipe, bridge
// subprocess) against a raw peer whose every byte it sends itself, or a raw client against a real
// Service whose handler performs context-bound raw I/O. One operation is run under a context
// that is cancelled / expires at a chosen instant relative to data arrival; then the same
// connection is used again with a live context.

import (
	"bytes"
	"context"
	"encoding/json"
	"errors"
	"fmt"
	"io"
	"net"
	"os"
	"sync/atomic"
	"testing"
	"time"

	"github.com/varlink/go/varlink"
	"pgregory.net/rapid"
)

// C17Case is one cancellation scenario.
type C17Case struct {
	Side      string `json:"side"`                // client | handler | service
	Op        string `json:"op"`                  // client: receive call send up-read up-readbytes up-write ; handler: read readbytes write ; service: idle
	Transport string `json:"transport"`           // unix tcp pipe bridge
	Trigger   string `json:"trigger"`             // cancel | deadline | none (control arm)
	Instant   string `json:"instant"`             // before | blocked | partial | after
	Partial   int    `json:"partial"`             // bytes of the frame delivered before the trigger (instant partial)
	Follow    int    `json:"follow"`              // number of follow-up frames sent after the operation returned (1-3)
	FollowCut int    `json:"follow_cut"`          // segment size for the follow-up bytes (0 = one write)
	Coalesced bool   `json:"coalesced,omitempty"` // instant partial: the prefix arrives in the same segment as the preceding complete frame
	// Background: the follow-up operations run under context.Background() (no deadline, Done() == nil) instead of a context with a far deadline
	Background bool `json:"background,omitempty"`
	// Duplex (raw reads on an upgraded connection): while the read is blocked, another goroutine has a raw Write
	// pending under a live context; cancelling the read must not disturb it
	Duplex bool `json:"duplex,omitempty"`
	// SendCtxDead (op up-receive): the context that was passed to Upgrade() is cancelled once Upgrade() has returned;
	// the receive function it returned is governed by its own context argument only
	SendCtxDead bool `json:"send_ctx_dead,omitempty"`
}

const c17Bound = 5 * time.Second

var c17Counter int64

func ctxOrTimeoutErr(err error) bool {
	if err == nil {
		return false
	}
	if errors.Is(err, context.Canceled) || errors.Is(err, context.DeadlineExceeded) || errors.Is(err, os.ErrDeadlineExceeded) {
		return true
	}
	var ne net.Error
	return errors.As(err, &ne) && ne.Timeout()
}

// c17Peer sets up a client Connection and the raw peer end for the transport.
func c17Peer(transport string, bound time.Duration) (cli *varlink.Connection, srv net.Conn, cleanup func(), err error) {
	id := fmt.Sprintf("verif-c17-%d-%d", os.Getpid(), atomic.AddInt64(&c17Counter, 1))
	switch transport {
	case "pipe":
		a, b := net.Pipe()
		return varlink.VerifNewConnection(sockLikePipe{a}), b, func() {}, nil
	case "unix", "tcp", "bridge":
		network, laddr := "unix", "@"+id
		if transport == "tcp" {
			network, laddr = "tcp", "127.0.0.1:0"
		}
		l, lerr := net.Listen(network, laddr)
		if lerr != nil {
			return nil, nil, nil, fmt.Errorf("HARNESS: %v", lerr)
		}
		acc := make(chan net.Conn, 1)
		go func() { s, _ := l.Accept(); acc <- s }()
		switch transport {
		case "bridge":
			cli, err = varlink.NewBridgeWithStderr(BridgeCommand(laddr), io.Discard)
		case "tcp":
			ctx, cancel := context.WithTimeout(context.Background(), bound)
			cli, err = varlink.NewConnection(ctx, "tcp:"+l.Addr().String())
			cancel()
		default:
			ctx, cancel := context.WithTimeout(context.Background(), bound)
			cli, err = varlink.NewConnection(ctx, "unix:"+laddr)
			cancel()
		}
		if err != nil {
			l.Close()
			return nil, nil, nil, fmt.Errorf("cannot open the client connection (%s): %v", transport, err)
		}
		select {
		case srv = <-acc:
		case <-time.After(bound):
		}
		if srv == nil {
			l.Close()
			cli.Close()
			return nil, nil, nil, fmt.Errorf("HARNESS: the raw peer did not get a connection (%s)", transport)
		}
		return cli, srv, func() { l.Close() }, nil
	}
	return nil, nil, nil, fmt.Errorf("HARNESS: unknown transport %q", transport)
}

type opResult struct {
	flags uint64
	n     int
	data  []byte
	err   error
	took  time.Duration
}

// runBounded runs f in a goroutine and waits up to bound.
func runBounded(bound time.Duration, f func() opResult) (opResult, bool) {
	ch := make(chan opResult, 1)
	go func() {
		t0 := time.Now()
		r := f()
		r.took = time.Since(t0)
		ch <- r
	}()
	select {
	case r := <-ch:
		return r, true
	case <-time.After(bound):
		return opResult{}, false
	}
}

func srvReadFrame(srv net.Conn, bound time.Duration) ([]byte, error) {
	var got []byte
	buf := make([]byte, 65536)
	srv.SetReadDeadline(time.Now().Add(bound))
	for !bytes.Contains(got, []byte{0}) {
		n, err := srv.Read(buf)
		got = append(got, buf[:n]...)
		if err != nil {
			return got, err
		}
	}
	return got, nil
}

func srvWrite(srv net.Conn, b []byte, cut int, bound time.Duration) error {
	for _, seg := range Segments(b, cutPlan(cut)) {
		srv.SetWriteDeadline(time.Now().Add(bound))
		if _, err := srv.Write(seg); err != nil {
			return err
		}
	}
	return nil
}

func cutPlan(n int) []int {
	if n <= 0 {
		return nil
	}
	return []int{n}
}

// makeCtx returns the operation's context, the function that fires a cancel trigger, the final cancel, and
// (instant "after" with a deadline) the moment the deadline passes.
func makeCtx(trigger, instant string, slowOp bool) (context.Context, func(), func(), time.Time) {
	switch trigger {
	case "cancel":
		ctx, cancel := context.WithCancel(context.Background())
		if instant == "before" {
			cancel()
		}
		return ctx, cancel, cancel, time.Time{}
	case "deadline":
		d := 40 * time.Millisecond
		switch {
		case instant == "before":
			d = -time.Second
		case instant == "after" && slowOp:
			d = 1500 * time.Millisecond // the operation completes first; the deadline passes afterwards
		case instant == "after":
			d = 150 * time.Millisecond
		}
		at := time.Now().Add(d)
		ctx, cancel := context.WithDeadline(context.Background(), at)
		return ctx, func() {}, cancel, at
	}
	ctx, cancel := context.WithCancel(context.Background())
	return ctx, func() {}, cancel, time.Time{}
}

func execC17Client(c C17Case, bound time.Duration) (map[string]bool, error) {
	facts := map[string]bool{}
	cli, srv, cleanup, err := c17Peer(c.Transport, bound)
	if err != nil {
		return facts, err
	}
	defer cleanup()
	defer cli.Close() // (runs after srv.Close: a bridge's Close waits for the relay, which exits when the peer closes)
	defer srv.Close()
	live := context.Background()

	// a first, ordinary exchange: proves the transport works and yields a receive closure / the upgraded connection
	var receive func(context.Context, interface{}) (uint64, error)
	var rwc varlink.ReadWriterContext
	upgraded := c.Op == "up-read" || c.Op == "up-readbytes" || c.Op == "up-write"
	r0ch := make(chan opResult, 1)
	go func() {
		r0ch <- func() opResult {
			if upgraded {
				up, e := cli.Upgrade(live, "x.y.Up", nil)
				if e != nil {
					return opResult{err: e}
				}
				var out json.RawMessage
				_, conn, e2 := up(live, &out)
				rwc = conn
				return opResult{err: e2}
			}
			rcv, e := cli.Send(live, "x.y.First", map[string]int{"a": 1}, varlink.More)
			receive = rcv
			if e != nil {
				return opResult{err: e}
			}
			var out json.RawMessage
			_, e2 := rcv(live, &out)
			return opResult{err: e2, data: out}
		}()
	}()
	// the peer answers the first exchange
	if _, rerr := srvReadFrame(srv, bound); rerr != nil {
		return facts, fmt.Errorf("the first, uncancelled request did not reach the peer: %v", rerr)
	}
	frame1 := []byte(`{"parameters":{"n":1,"pad":"` + string(bytes.Repeat([]byte("p"), 40)) + `"},"continues":true}`)
	firstReply := []byte(`{"parameters":{"first":true},"continues":true}` + "\x00")
	coalesced := c.Coalesced && c.Instant == "partial" && c.Op != "send" && c.Op != "up-send" && c.Op != "up-write"
	if coalesced {
		firstReply = append(firstReply, frame1[:1+c.Partial%(len(frame1)-1)]...)
	}
	if werr := srvWrite(srv, firstReply, 0, bound); werr != nil {
		return facts, fmt.Errorf("HARNESS: peer write: %v", werr)
	}
	select {
	case r0 := <-r0ch:
		if r0.err != nil {
			return facts, fmt.Errorf("the first, uncancelled exchange failed: %v", r0.err)
		}
	case <-time.After(bound):
		return facts, fmt.Errorf("the first, uncancelled exchange did not complete within %v", bound)
	}

	if c.Op == "up-receive" {
		// the operation under test is the receive function returned by Upgrade(), called with a context of its own
		sendCtx, sendCancel := context.WithCancel(context.Background())
		defer sendCancel()
		type upRes struct {
			up  func(context.Context, interface{}) (uint64, varlink.ReadWriterContext, error)
			err error
		}
		upCh := make(chan upRes, 1)
		go func() {
			up, e := cli.Upgrade(sendCtx, "x.y.Up", nil)
			upCh <- upRes{up, e}
		}()
		if _, rerr := srvReadFrame(srv, bound); rerr != nil {
			return facts, fmt.Errorf("the upgrade request did not reach the peer: %v", rerr)
		}
		select {
		case ur := <-upCh:
			if ur.err != nil {
				return facts, fmt.Errorf("Upgrade() under a live context failed: %v", ur.err)
			}
			receive = func(ctx context.Context, out interface{}) (uint64, error) {
				fl, _, e := ur.up(ctx, out)
				return fl, e
			}
		case <-time.After(bound):
			return facts, fmt.Errorf("Upgrade() did not return within %v although the peer had read the request", bound)
		}
		if c.SendCtxDead {
			sendCancel()
			facts["send-context-cancelled-after-send"] = true
		}
	}
	writeOp := c.Op == "send" || c.Op == "up-send" || c.Op == "up-write"
	ctx, fire, cancel, deadlineAt := makeCtx(c.Trigger, c.Instant, writeOp)
	defer cancel()
	big := bytes.Repeat([]byte("W"), 8<<20)

	// what the peer has in flight when the operation starts (written concurrently: the in-memory transport has no buffer)
	partial := 0
	preDone := make(chan error, 1)
	switch {
	case c.Instant == "partial" && !writeOp:
		partial = 1 + c.Partial%(len(frame1)-1)
		if coalesced {
			facts["prefix-coalesced-with-previous-frame"] = true
			preDone <- nil // already delivered together with the first reply
		} else {
			go func() { preDone <- srvWrite(srv, frame1[:partial], 0, bound) }()
		}
	case c.Instant == "after" && !writeOp:
		go func() { preDone <- srvWrite(srv, append(append([]byte(nil), frame1...), 0), 0, bound) }()
	default:
		preDone <- nil
	}
	peerDrain := make(chan int, 1)
	if writeOp && (c.Instant == "after" || c.Trigger == "none") {
		// control: the peer reads everything, the write must succeed completely
		go func() {
			total := 0
			buf := make([]byte, 1<<20)
			srv.SetReadDeadline(time.Now().Add(bound))
			for total < len(big)+1 {
				n, rerr := srv.Read(buf)
				total += n
				if (c.Op == "send" || c.Op == "up-send") && bytes.IndexByte(buf[:n], 0) >= 0 {
					break
				}
				if rerr != nil {
					break
				}
			}
			peerDrain <- total
		}()
	}

	op := func() opResult {
		switch c.Op {
		case "receive", "up-receive":
			var out json.RawMessage
			fl, e := receive(ctx, &out)
			return opResult{flags: fl, err: e, data: out}
		case "call":
			var out json.RawMessage
			e := cli.Call(ctx, "x.y.Second", map[string]int{"b": 2}, &out)
			return opResult{err: e, data: out}
		case "send":
			_, e := cli.Send(ctx, "x.y.Big", map[string]string{"w": string(big)}, 0)
			return opResult{err: e}
		case "up-send": // Upgrade() is a send as well: it writes the call under its context
			up, e := cli.Upgrade(ctx, "x.y.Big", map[string]string{"w": string(big)})
			if e == nil && up == nil {
				e = fmt.Errorf("Upgrade returned neither a receive function nor an error")
			}
			return opResult{err: e}
		case "up-read":
			buf := make([]byte, 4096)
			n, e := rwc.Read(ctx, buf)
			return opResult{n: n, data: buf[:n], err: e}
		case "up-readbytes":
			b, e := rwc.ReadBytes(ctx, 0)
			return opResult{data: b, err: e}
		case "up-write":
			n, e := rwc.Write(ctx, append(append([]byte(nil), big...), 0))
			return opResult{n: n, err: e}
		}
		return opResult{err: fmt.Errorf("HARNESS: unknown op")}
	}
	var duplexRes chan opResult
	duplexData := bytes.Repeat([]byte("D"), 4<<20)
	if c.Duplex && rwc != nil && !writeOp {
		facts["duplex-write-pending"] = true
		duplexRes = make(chan opResult, 1)
		go func() {
			n, e := rwc.Write(context.Background(), duplexData)
			duplexRes <- opResult{n: n, err: e}
		}()
		time.Sleep(3 * time.Millisecond) // let it block (the peer does not read yet)
	}
	resCh := make(chan opResult, 1)
	t0 := time.Now()
	go func() { r := op(); r.took = time.Since(t0); resCh <- r }()
	var res opResult
	returnedEarly := false
	if c.Op == "call" && c.Instant != "before" {
		// Call writes its request first; the peer reads it so that the read is what blocks. On a slow machine the
		// context may die before the request is even written: then the call simply fails early, which is fine.
		reqCh := make(chan error, 1)
		go func() { _, rerr := srvReadFrame(srv, bound); reqCh <- rerr }()
		select {
		case rerr := <-reqCh:
			if rerr != nil {
				select {
				case res = <-resCh:
					returnedEarly = true
				default:
					return facts, fmt.Errorf("Call's request did not reach the peer: %v", rerr)
				}
			}
		case res = <-resCh:
			returnedEarly = true
		}
	}
	if returnedEarly {
	} else if c.Trigger == "cancel" && (c.Instant == "blocked" || c.Instant == "partial") {
		select {
		case res = <-resCh:
			returnedEarly = true
		case <-time.After(15 * time.Millisecond):
			facts["really-blocked"] = true
		}
		fire()
	} else if c.Trigger == "deadline" && (c.Instant == "blocked" || c.Instant == "partial") {
		facts["really-blocked"] = true // the deadline lies 40 ms ahead and nothing can complete
	}
	if !returnedEarly {
		select {
		case res = <-resCh:
		case <-time.After(bound):
			srv.Close()
			cli.Close()
			return facts, fmt.Errorf("%s on %s: the operation did not return within %v after its context was %s (instant %s)", c.Op, c.Transport, bound, map[string]string{"cancel": "cancelled", "deadline": "past its deadline", "none": "left alone"}[c.Trigger], c.Instant)
		}
	}
	select {
	case werr := <-preDone:
		if werr != nil && c.Transport != "pipe" {
			return facts, fmt.Errorf("HARNESS: peer write: %v", werr)
		}
	case <-time.After(bound):
	}
	if c.Instant == "after" {
		// the trigger fires only now, after completion: it must leave nothing behind
		if !deadlineAt.IsZero() {
			if d := time.Until(deadlineAt); d > 0 {
				time.Sleep(d + 5*time.Millisecond)
			}
		}
		fire()
	}
	canComplete := c.Trigger == "none" || c.Instant == "after"
	switch {
	case canComplete:
		if res.err != nil && c.Trigger == "deadline" && ctxOrTimeoutErr(res.err) && !deadlineAt.IsZero() && !time.Now().Before(deadlineAt) {
			// the machine was too slow to finish before the (generous) deadline: says nothing about the library
			facts["inconclusive:slow-machine"] = true
			return facts, nil
		}
		if res.err != nil {
			return facts, fmt.Errorf("%s on %s: everything the operation needed was available, but it failed: %v", c.Op, c.Transport, res.err)
		}
		switch c.Op {
		case "receive", "call", "up-receive":
			if d := JSONDiff([]byte(`{"n":1,"pad":"`+string(bytes.Repeat([]byte("p"), 40))+`"}`), res.data); d != "" {
				return facts, fmt.Errorf("%s: completed with wrong data: %s", c.Op, d)
			}
		case "up-readbytes":
			if !bytes.Equal(res.data, append(append([]byte(nil), frame1...), 0)) {
				return facts, fmt.Errorf("up-readbytes: completed with %s, the peer sent %s", Preview(res.data), Preview(frame1))
			}
		case "up-read":
			if res.n == 0 || !bytes.HasPrefix(append(append([]byte(nil), frame1...), 0), res.data) {
				return facts, fmt.Errorf("up-read: completed with %s, the peer sent %s", Preview(res.data), Preview(frame1))
			}
			// read the rest of frame1 so that the follow-up starts at a frame boundary
			rest := len(frame1) + 1 - res.n
			for rest > 0 {
				buf := make([]byte, rest)
				n, e := rwc.Read(live, buf)
				if e != nil {
					return facts, fmt.Errorf("up-read: reading on with a live context failed: %v", e)
				}
				rest -= n
			}
		case "send", "up-send", "up-write":
			select {
			case <-peerDrain:
			case <-time.After(bound):
				return facts, fmt.Errorf("HARNESS: the peer did not receive the whole write")
			}
		}
	default:
		// nothing could complete: must be a context / timeout error
		if res.err == nil {
			if !(writeOp && c.Transport != "pipe" && c.Instant == "before") { // (a write into an empty socket buffer may be fast)
				return facts, fmt.Errorf("%s on %s (instant %s, %s): reported success although its context was dead and the data/space it needed was not available (%d bytes, %s)", c.Op, c.Transport, c.Instant, c.Trigger, res.n, Preview(res.data))
			}
		} else if !ctxOrTimeoutErr(res.err) {
			return facts, fmt.Errorf("%s on %s (instant %s, %s): returned %v (%T), want a context or timeout error", c.Op, c.Transport, c.Instant, c.Trigger, res.err, res.err)
		}
		facts["unblocked-by-context"] = true
	}
	facts["partial-frame"] = partial > 0

	if duplexRes != nil {
		// the read was cancelled while a write in the other direction was pending under a live context:
		// now the peer reads, and that write must complete untouched
		got := 0
		buf := make([]byte, 1<<20)
		srv.SetReadDeadline(time.Now().Add(bound))
		var rerr error
		for got < len(duplexData) && rerr == nil {
			var n int
			n, rerr = srv.Read(buf)
			for _, b := range buf[:n] {
				if b != 'D' {
					return facts, fmt.Errorf("duplex: the peer received a byte the pending write never contained")
				}
			}
			got += n
		}
		select {
		case wr := <-duplexRes:
			if wr.err != nil || wr.n != len(duplexData) {
				return facts, fmt.Errorf("%s on %s: cancelling the read disturbed a Write pending in the other direction under a live context: it returned (%d, %v), want (%d, nil); the peer received %d bytes", c.Op, c.Transport, wr.n, wr.err, len(duplexData), got)
			}
		case <-time.After(bound):
			return facts, fmt.Errorf("%s on %s: a Write pending under a live context did not complete within %v after the peer started reading (%d bytes received)", c.Op, c.Transport, bound, got)
		}
		if got != len(duplexData) {
			return facts, fmt.Errorf("duplex: the peer received %d of %d bytes of the live write (%v)", got, len(duplexData), rerr)
		}
	}

	if writeOp && !canComplete {
		// the connection must be usable for WRITING again as well: the peer now drains whatever the interrupted write
		// left in the transport, and what a write under a live context sends must arrive behind it, intact
		marker := []byte("MARK-AFTER-INTERRUPTED-WRITE")
		drained := make(chan []byte, 1)
		go func() {
			var all []byte
			buf := make([]byte, 1<<20)
			srv.SetReadDeadline(time.Now().Add(bound))
			for {
				n, rerr := srv.Read(buf)
				all = append(all, buf[:n]...)
				from := len(all) - n - len(marker)
				if from < 0 {
					from = 0
				}
				if rerr != nil || bytes.Contains(all[from:], marker) {
					break
				}
			}
			srv.SetReadDeadline(time.Time{})
			drained <- all
		}()
		wctx, wcancel := context.WithTimeout(context.Background(), bound)
		var werr error
		if c.Op == "up-write" {
			var wn int
			wn, werr = rwc.Write(wctx, marker)
			if werr == nil && wn != len(marker) {
				werr = fmt.Errorf("short write: %d of %d bytes", wn, len(marker))
			}
		} else {
			_, werr = cli.Send(wctx, "x.y.After", map[string]string{"m": string(marker)}, 0)
		}
		wcancel()
		var all []byte
		select {
		case all = <-drained:
		case <-time.After(bound + time.Second):
			return facts, fmt.Errorf("HARNESS: the peer's drain did not finish")
		}
		if werr != nil {
			if ctxOrTimeoutErr(werr) && c.Transport != "pipe" {
				facts["inconclusive:slow-machine"] = true // (megabytes still queued in front of it on a loaded machine)
				return facts, nil
			}
			return facts, fmt.Errorf("%s on %s (instant %s, %s): after the interrupted write (n=%d, %v) a write with a live context on the same connection failed: %v", c.Op, c.Transport, c.Instant, c.Trigger, res.n, res.err, werr)
		}
		idx := bytes.Index(all, marker)
		if idx < 0 {
			return facts, fmt.Errorf("%s on %s (instant %s, %s): what was written under a live context after the interrupted write never reached the peer (%d bytes received)", c.Op, c.Transport, c.Instant, c.Trigger, len(all))
		}
		if c.Op == "up-write" {
			for _, b := range all[:idx] {
				if b != 'W' && b != 0 {
					return facts, fmt.Errorf("up-write on %s: in front of the bytes written under a live context the peer received a byte the interrupted write never contained", c.Transport)
				}
			}
		}
		facts["write-again-after-interrupted-write"] = true
	}

	// follow-up with a live context: everything the peer sends from now on must arrive, in order
	var follow bytes.Buffer
	var wantFrames [][]byte
	if partial > 0 {
		follow.Write(frame1[partial:])
		follow.WriteByte(0)
	}
	nf := c.Follow
	if nf < 1 {
		nf = 1
	}
	for i := 0; i < nf; i++ {
		f := []byte(fmt.Sprintf(`{"parameters":{"follow":%d,"s":"é😀"},"continues":true}`, i))
		wantFrames = append(wantFrames, f)
		follow.Write(f)
		follow.WriteByte(0)
	}
	if writeOp && !canComplete {
		// the peer never read the torn write; it just talks
	}
	werrCh := make(chan error, 1)
	go func() { werrCh <- srvWrite(srv, follow.Bytes(), c.FollowCut, bound) }()
	liveCtx, liveCancel := context.WithTimeout(context.Background(), bound)
	defer liveCancel()
	if c.Background {
		liveCtx = context.Background() // a hang is then caught by bounded()
	}
	// bounded runs one follow-up operation; with a context that cannot expire the harness bounds it instead
	bounded := func(f func() error) error {
		ch := make(chan error, 1)
		go func() { ch <- f() }()
		select {
		case e := <-ch:
			return e
		case <-time.After(bound + time.Second):
			srv.Close()
			return fmt.Errorf("follow-up operation under context.Background() did not return within %v", bound)
		}
	}
	skipTorn := partial > 0
	if upgraded {
		// byte level: the concatenation of what the follow-up reads return
		var got []byte
		want := follow.Bytes()
		// bytes in flight at the moment of cancellation may or may not have been consumed by the cancelled call
		alt := append(append([]byte(nil), frame1[:partial]...), want...)
		iter := 0
		for len(got) < len(want) || (partial > 0 && bytes.HasPrefix(alt, got) && len(got) < len(alt) && !bytes.HasPrefix(got, want)) {
			var b []byte
			var e error
			iter++
			if (c.Op == "up-read") == (iter%2 == 0) { // alternate, starting with the OTHER primitive; the two read primitives: each must clear what the other armed
				buf := make([]byte, 64)
				var n int
				e = bounded(func() error { var re error; n, re = rwc.Read(liveCtx, buf); return re })
				b = buf[:n]
			} else {
				e = bounded(func() error { var re error; b, re = rwc.ReadBytes(liveCtx, 0); return re })
			}
			got = append(got, b...)
			if e != nil {
				if isTimeoutErr(e) && liveCtx.Err() == nil {
					return facts, fmt.Errorf("follow-up read with a live context failed with a timeout (a deadline armed by the cancelled operation was left behind): %v", e)
				}
				return facts, fmt.Errorf("follow-up read with a live context failed after %d of %d bytes: %v", len(got), len(want), e)
			}
		}
		if !bytes.Equal(got, want) && !(partial > 0 && bytes.Equal(got, alt)) {
			return facts, fmt.Errorf("follow-up reads with a live context returned %s, the peer sent (after the cancelled call returned) %s", Preview(got), Preview(want))
		}
	} else {
		for i := 0; i < len(wantFrames); i++ {
			var out json.RawMessage
			var fl uint64
			e := bounded(func() error { var re error; fl, re = receive(liveCtx, &out); return re })
			if e != nil && skipTorn {
				skipTorn = false // the remainder of the frame that was torn by the cancellation: don't care
				i--
				facts["torn-remainder-skipped"] = true
				if isTimeoutErr(e) {
					return facts, fmt.Errorf("follow-up receive with a live context timed out: %v", e)
				}
				continue
			}
			if e == nil && skipTorn && JSONDiff([]byte(`{"n":1,"pad":"`+string(bytes.Repeat([]byte("p"), 40))+`"}`), out) == "" {
				// the cancelled call had not consumed the bytes in flight: the first frame arrives whole
				skipTorn = false
				i--
				facts["in-flight-bytes-kept"] = true
				continue
			}
			skipTorn = false
			if e != nil {
				if isTimeoutErr(e) && liveCtx.Err() == nil {
					return facts, fmt.Errorf("follow-up receive %d with a live context failed with a timeout (a deadline armed by the cancelled operation was left behind): %v", i, e)
				}
				return facts, fmt.Errorf("follow-up receive %d with a live context failed: %v", i, e)
			}
			var m wireReply
			json.Unmarshal(wantFrames[i], &m)
			if fl&varlink.Continues == 0 {
				return facts, fmt.Errorf("follow-up receive %d lost the continues flag", i)
			}
			if d := JSONDiff(*m.Parameters, out); d != "" {
				return facts, fmt.Errorf("follow-up receive %d: got %s, the peer sent frame %s (bytes sent after the cancelled call returned were lost, duplicated or reordered): %s", i, Preview(out), Preview(wantFrames[i]), d)
			}
		}
	}
	select {
	case werr := <-werrCh:
		if werr != nil {
			return facts, fmt.Errorf("HARNESS: peer follow-up write: %v", werr)
		}
	case <-time.After(bound):
		return facts, fmt.Errorf("HARNESS: peer follow-up write did not finish")
	}
	srv.Close()
	cli.Close()
	if left := LibGoroutines(bound / 2); left != "" {
		return facts, fmt.Errorf("library goroutines left behind:\n%s", left)
	}
	return facts, nil
}

// ---------------------------------------------------------------------------
// handler side: the handler's own context-bound raw I/O on Call.Conn

type cancelIface struct {
	c        C17Case
	res      chan opResult
	follow   chan opResult
	nwant    int
	frameLen int // length of the frame that is completely available in the control arms (0 otherwise)
}

func (h *cancelIface) VarlinkGetName() string        { return "x.y" }
func (h *cancelIface) VarlinkGetDescription() string { return "interface x.y\nmethod Up() -> ()\n" }
func (h *cancelIface) VarlinkDispatch(hctx context.Context, call varlink.Call, m string) error {
	if err := call.Reply(hctx, map[string]bool{"upgraded": true}); err != nil {
		return err
	}
	var ctx context.Context
	var cancel context.CancelFunc
	var deadlineAt time.Time
	switch h.c.Trigger {
	case "cancel":
		ctx, cancel = context.WithCancel(hctx)
		switch h.c.Instant {
		case "before":
			cancel()
		case "blocked", "partial":
			time.AfterFunc(15*time.Millisecond, cancel)
		}
	case "deadline":
		d := 40 * time.Millisecond
		switch {
		case h.c.Instant == "before":
			d = -time.Second
		case h.c.Instant == "after" && h.c.Op == "write":
			d = 1500 * time.Millisecond
		case h.c.Instant == "after":
			d = 150 * time.Millisecond
		}
		deadlineAt = time.Now().Add(d)
		ctx, cancel = context.WithDeadline(hctx, deadlineAt)
	default:
		ctx, cancel = context.WithCancel(hctx)
	}
	defer cancel()
	t0 := time.Now()
	var r opResult
	switch h.c.Op {
	case "read":
		buf := make([]byte, 4096)
		n, e := call.Conn.Read(ctx, buf)
		r = opResult{n: n, data: buf[:n], err: e}
	case "readbytes":
		b, e := call.Conn.ReadBytes(ctx, 0)
		r = opResult{data: b, err: e}
	case "write":
		n, e := call.Conn.Write(ctx, bytes.Repeat([]byte("W"), 8<<20))
		r = opResult{n: n, err: e}
	}
	r.took = time.Since(t0)
	if h.c.Instant == "after" {
		// the trigger fires only now, after completion
		if d := time.Until(deadlineAt); !deadlineAt.IsZero() && d > 0 {
			time.Sleep(d + 5*time.Millisecond)
		}
		cancel()
	}
	nwant := h.nwant
	if h.c.Op == "read" && r.err == nil && h.frameLen > 0 && r.n < h.frameLen+1 {
		nwant += h.frameLen + 1 - r.n // the unread rest of the frame that was completely available
	}
	h.res <- r
	// follow-up with the handler's own (live) context: read until nwant bytes arrived
	var got []byte
	var ferr error
	for len(got) < nwant && ferr == nil {
		var b []byte
		if h.c.Op == "readbytes" {
			b, ferr = call.Conn.ReadBytes(hctx, 0)
		} else {
			buf := make([]byte, 100)
			var n int
			n, ferr = call.Conn.Read(hctx, buf)
			b = buf[:n]
		}
		got = append(got, b...)
	}
	h.follow <- opResult{data: got, err: ferr}
	return nil
}

func execC17Handler(c C17Case, bound time.Duration) (map[string]bool, error) {
	facts := map[string]bool{}
	svc, err := varlink.NewService("v", "p", "1", "u")
	if err != nil {
		return facts, fmt.Errorf("HARNESS: %v", err)
	}
	frame1 := []byte(`FRAME-ONE-0123456789-abcdefghijklmnopqrstuvwxyz`)
	partial := 0
	if c.Instant == "partial" && c.Op != "write" {
		partial = 1 + c.Partial%(len(frame1)-1)
	}
	var follow bytes.Buffer
	if partial > 0 {
		follow.Write(frame1[partial:])
		follow.WriteByte(0)
	}
	nf := c.Follow
	if nf < 1 {
		nf = 1
	}
	for i := 0; i < nf; i++ {
		follow.WriteString(fmt.Sprintf("follow-%d-é😀", i))
		follow.WriteByte(0)
	}
	h := &cancelIface{c: c, res: make(chan opResult, 1), follow: make(chan opResult, 1), nwant: follow.Len()}
	if c.Instant == "after" && c.Op != "write" {
		h.frameLen = len(frame1)
	}
	if err := svc.RegisterInterface(h); err != nil {
		return facts, fmt.Errorf("HARNESS: %v", err)
	}
	ctx, cancel := context.WithCancel(context.Background())
	defer cancel()
	var conn net.Conn
	done := make(chan error, 1)
	switch c.Transport {
	case "pipe":
		fl := NewFakeListener()
		svc.VerifSetListener(fl)
		go func() { done <- svc.DoListen(ctx, 0) }()
		conn = fl.Connect()
	default:
		addr := fmt.Sprintf("unix:@verif-c17h-%d-%d", os.Getpid(), atomic.AddInt64(&c17Counter, 1))
		network := "unix"
		if c.Transport == "tcp" {
			addr, network = "tcp:127.0.0.1:0", "tcp"
		}
		if berr := svc.Bind(ctx, addr); berr != nil {
			return facts, fmt.Errorf("HARNESS: Bind: %v", berr)
		}
		l, _ := svc.GetListener()
		target := l.Addr().String()
		go func() { done <- svc.DoListen(ctx, 0) }()
		for dl := time.Now().Add(bound); time.Now().Before(dl); {
			conn, err = net.Dial(network, target)
			if err == nil {
				break
			}
			time.Sleep(time.Millisecond)
		}
		if err != nil {
			svc.Shutdown()
			return facts, fmt.Errorf("HARNESS: dial: %v", err)
		}
	}
	finished := false
	finish := func() {
		if finished {
			return
		}
		finished = true
		conn.Close()
		dl := time.Now().Add(bound)
		for activeConns(svc) != 0 && time.Now().Before(dl) {
			time.Sleep(100 * time.Microsecond)
		}
		svc.Shutdown()
		select {
		case <-done:
		case <-time.After(bound):
		}
	}
	defer finish()
	req := append(EncodeCall("x.y.Up", nil, false, false, true), 0)
	pre := append([]byte(nil), req...)
	switch c.Instant {
	case "partial":
		pre = append(pre, frame1[:partial]...)
	case "after":
		if c.Op != "write" {
			pre = append(append(pre, frame1...), 0)
		}
	}
	conn.SetWriteDeadline(time.Now().Add(bound))
	if _, werr := conn.Write(pre); werr != nil {
		return facts, fmt.Errorf("HARNESS: client write: %v", werr)
	}
	// read the reply frame (and, in the write control arm, everything)
	if _, rerr := srvReadFrame(conn, bound); rerr != nil {
		return facts, fmt.Errorf("the upgrade reply did not arrive: %v", rerr)
	}
	canComplete := c.Trigger == "none" || c.Instant == "after"
	if c.Op == "write" && canComplete {
		go func() {
			buf := make([]byte, 1<<20)
			total := 0
			conn.SetReadDeadline(time.Now().Add(bound))
			for total < 8<<20 {
				n, rerr := conn.Read(buf)
				total += n
				if rerr != nil {
					return
				}
			}
		}()
	}
	var res opResult
	var restOfFrame []byte
	select {
	case res = <-h.res:
	case <-time.After(bound):
		return facts, fmt.Errorf("handler %s on %s: the operation did not return within %v after its context was %s (instant %s)", c.Op, c.Transport, bound, c.Trigger, c.Instant)
	}
	if canComplete {
		if res.err != nil && c.Trigger == "deadline" && ctxOrTimeoutErr(res.err) && res.took >= 140*time.Millisecond {
			facts["inconclusive:slow-machine"] = true
			return facts, nil
		}
		if res.err != nil {
			return facts, fmt.Errorf("handler %s on %s: everything it needed was available, but it failed: %v", c.Op, c.Transport, res.err)
		}
		if c.Op == "readbytes" && !bytes.Equal(res.data, append(append([]byte(nil), frame1...), 0)) {
			return facts, fmt.Errorf("handler readbytes completed with %s, the client sent %s", Preview(res.data), Preview(frame1))
		}
		if c.Op == "read" {
			if res.n == 0 || !bytes.HasPrefix(append(append([]byte(nil), frame1...), 0), res.data) {
				return facts, fmt.Errorf("handler read completed with %s, the client sent %s", Preview(res.data), Preview(frame1))
			}
			// the unread rest of frame1 belongs to what the follow-up reads must return
			restOfFrame = append(append([]byte(nil), frame1...), 0)[res.n:]
		}
	} else {
		if res.err == nil {
			if !(c.Op == "write" && c.Transport != "pipe" && c.Instant == "before") {
				return facts, fmt.Errorf("handler %s on %s (instant %s, %s): reported success although its context was dead and nothing could complete (%d bytes %s)", c.Op, c.Transport, c.Instant, c.Trigger, res.n, Preview(res.data))
			}
		} else if !ctxOrTimeoutErr(res.err) {
			return facts, fmt.Errorf("handler %s on %s (instant %s, %s): returned %v (%T), want a context or timeout error", c.Op, c.Transport, c.Instant, c.Trigger, res.err, res.err)
		}
		facts["unblocked-by-context"] = true
		if res.took > 10*time.Millisecond {
			facts["really-blocked"] = true
		}
	}
	facts["partial-frame"] = partial > 0
	if c.Op == "write" && !canComplete {
		// the handler's follow-up reads; the client has not read the torn write, it just talks
	}
	want := append(append([]byte(nil), restOfFrame...), follow.Bytes()...)
	if werr := srvWrite(conn, follow.Bytes(), c.FollowCut, bound); werr != nil && c.Op != "write" {
		return facts, fmt.Errorf("HARNESS: client follow-up write: %v", werr)
	}
	select {
	case fr := <-h.follow:
		if fr.err != nil {
			if isTimeoutErr(fr.err) {
				return facts, fmt.Errorf("handler follow-up read with a live context failed with a timeout (a deadline armed by the cancelled operation was left behind): %v", fr.err)
			}
			return facts, fmt.Errorf("handler follow-up read with a live context failed: %v (got %s)", fr.err, Preview(fr.data))
		}
		alt := append(append([]byte(nil), frame1[:partial]...), want...) // bytes in flight at the cancellation may not have been consumed
		if !bytes.Equal(fr.data, want) && !(partial > 0 && bytes.HasPrefix(alt, fr.data) && len(fr.data) >= len(want)) {
			return facts, fmt.Errorf("handler follow-up reads returned %s, the client sent (after the cancelled call returned) %s", Preview(fr.data), Preview(want))
		}
	case <-time.After(bound):
		return facts, fmt.Errorf("handler follow-up read with a live context did not return within %v although the client had sent %d bytes", bound, len(want))
	}
	finish()
	if left := LibGoroutines(bound / 2); left != "" {
		return facts, fmt.Errorf("library goroutines left behind:\n%s", left)
	}
	return facts, nil
}

// service side: the per-connection read of the service is bound to the serving context
func execC17Service(c C17Case, bound time.Duration) (map[string]bool, error) {
	facts := map[string]bool{}
	tr := map[string]string{"pipe": "pipe", "unix": "unixabs", "tcp": "tcp", "bridge": "unixabs"}[c.Transport]
	// trigger "deadline": the serving context carries a deadline that passes while the connection is open
	parent, pcancel := context.Background(), context.CancelFunc(func() {})
	var expiry time.Time
	if c.Trigger == "deadline" {
		expiry = time.Now().Add(400 * time.Millisecond)
		parent, pcancel = context.WithDeadline(context.Background(), expiry)
	}
	defer pcancel()
	env, err := startE2EWith(parent, []string{"x.y"}, tr, false)
	if err != nil {
		return facts, err
	}
	var conn net.Conn
	if tr == "pipe" {
		conn = env.fake.Connect()
	} else {
		network, target := "unix", env.sockPath
		if tr == "tcp" {
			network, target = "tcp", env.address[len("tcp:"):]
		}
		for dl := time.Now().Add(bound); time.Now().Before(dl); {
			conn, err = net.Dial(network, target)
			if err == nil {
				break
			}
			time.Sleep(time.Millisecond)
		}
		if err != nil {
			env.svc.Shutdown()
			env.cleanup()
			return facts, fmt.Errorf("HARNESS: dial: %v", err)
		}
	}
	defer conn.Close()
	if c.Coalesced && c.Instant == "partial" {
		// a complete call and the beginning of the next one in ONE segment
		conn.SetWriteDeadline(time.Now().Add(bound))
		conn.Write(append(append(append([]byte(nil), sentinelFrame...), 0), []byte(`{"method":"org.varlink.serv`)...))
		got, _, _ := readFrames(conn, 1, bound)
		if fr, _ := SplitFrames(got); len(fr) != 1 {
			env.svc.Shutdown()
			env.cleanup()
			return facts, fmt.Errorf("service: the complete call was not answered")
		}
		facts["partial-frame"] = true
		facts["prefix-coalesced-with-previous-frame"] = true
	} else {
		if perr := probeGetInfo(conn, env.cfg, bound); perr != nil {
			env.svc.Shutdown()
			env.cleanup()
			return facts, perr
		}
		if c.Instant == "partial" {
			conn.Write([]byte(`{"method":"org.varlink.serv`))
			facts["partial-frame"] = true
		}
	}
	time.Sleep(2 * time.Millisecond)
	how := "was cancelled"
	if c.Trigger == "deadline" {
		if time.Until(expiry) < 30*time.Millisecond {
			// the preparation took longer than the deadline allowed (loaded machine): the case says nothing
			facts["inconclusive:slow-machine"] = true
			conn.Close()
			env.cancel()
			env.stop(bound)
			return facts, nil
		}
		how = "reached its deadline"
		facts["serving-context-deadline"] = true
		time.Sleep(time.Until(expiry))
	} else {
		env.cancel() // the serving context
	}
	t0 := time.Now()
	got, eof, _ := readFrames(conn, -1, bound)
	if !eof {
		env.svc.Shutdown()
		return facts, fmt.Errorf("service on %s: %v after the serving context %s the idle connection is still open (its blocked read did not return)", c.Transport, bound, how)
	}
	if len(got) != 0 {
		return facts, fmt.Errorf("service: unexpected bytes %s after cancellation", Preview(got))
	}
	facts["unblocked-by-context"] = true
	facts["really-blocked"] = true
	_ = t0
	conn.Close()
	if serr := env.stop(bound); serr != nil {
		return facts, serr
	}
	if left := LibGoroutines(bound / 2); left != "" {
		return facts, fmt.Errorf("library goroutines left behind:\n%s", left)
	}
	return facts, nil
}

func checkC17(c C17Case, st *Stats) error {
	bound := c17Bound * WatchdogScale()
	if os.Getenv("VERIF_C17_TIMING") != "" {
		t0 := time.Now()
		defer func() { fmt.Printf("TIMING %v %+v\n", time.Since(t0).Round(time.Millisecond), c) }()
	}
	var facts map[string]bool
	var err error
	switch c.Side {
	case "handler":
		facts, err = execC17Handler(c, bound)
	case "service":
		facts, err = execC17Service(c, bound)
	default:
		facts, err = execC17Client(c, bound)
	}
	nt := facts["really-blocked"] || facts["partial-frame"]
	labels := []string{"side:" + c.Side, "op:" + c.Op, "transport:" + c.Transport, "trigger:" + c.Trigger, "instant:" + c.Instant}
	for k, v := range facts {
		if v {
			labels = append(labels, k)
		}
	}
	sortStrings(labels)
	st.Case(HashOf(c), nt, func() interface{} { return c }, labels...)
	return err
}

var propC17 = Register(Prop[C17Case]{ID: "C17", Name: "C17", Pending: true, Check: checkC17})

func c17Cells() []C17Case {
	var cells []C17Case
	for _, tr := range []string{"unix", "tcp", "pipe", "bridge"} {
		for _, op := range []string{"receive", "call", "send", "up-read", "up-readbytes", "up-write", "up-receive", "up-send"} {
			for _, trig := range []string{"cancel", "deadline", "none"} {
				for _, inst := range []string{"before", "blocked", "partial", "after"} {
					if trig == "none" && inst != "after" {
						continue
					}
					if (op == "send" || op == "up-send" || op == "up-write" || op == "up-read") && inst == "partial" {
						continue // (a raw Read with bytes available simply returns them: same as "after")
					}
					if op == "call" && inst == "after" {
						continue // Call's reply cannot arrive before its request was sent
					}
					cells = append(cells, C17Case{Side: "client", Op: op, Transport: tr, Trigger: trig, Instant: inst, Partial: 17, Follow: 2})
					if op == "up-receive" {
						cells = append(cells, C17Case{Side: "client", Op: op, Transport: tr, Trigger: trig, Instant: inst, Partial: 17, Follow: 2, SendCtxDead: true})
					}
					if inst == "partial" && op != "call" {
						cells = append(cells, C17Case{Side: "client", Op: op, Transport: tr, Trigger: trig, Instant: inst, Partial: 17, Follow: 2, Coalesced: true})
					}
					if trig == "deadline" && (inst == "after" || inst == "blocked") && op != "send" && op != "up-send" && op != "up-write" {
						cells = append(cells, C17Case{Side: "client", Op: op, Transport: tr, Trigger: trig, Instant: inst, Partial: 17, Follow: 2, Background: true})
					}
					if (op == "up-read" || op == "up-readbytes") && inst == "blocked" && trig != "none" {
						cells = append(cells, C17Case{Side: "client", Op: op, Transport: tr, Trigger: trig, Instant: inst, Follow: 2, Duplex: true})
					}
				}
			}
		}
	}
	for _, tr := range []string{"unix", "tcp", "pipe"} {
		for _, op := range []string{"read", "readbytes", "write"} {
			for _, trig := range []string{"cancel", "deadline", "none"} {
				for _, inst := range []string{"before", "blocked", "partial", "after"} {
					if trig == "none" && inst != "after" {
						continue
					}
					if (op == "write" || op == "read") && inst == "partial" {
						continue
					}
					cells = append(cells, C17Case{Side: "handler", Op: op, Transport: tr, Trigger: trig, Instant: inst, Partial: 9, Follow: 2})
				}
			}
		}
		for _, inst := range []string{"blocked", "partial"} {
			cells = append(cells, C17Case{Side: "service", Op: "idle", Transport: tr, Trigger: "cancel", Instant: inst})
			cells = append(cells, C17Case{Side: "service", Op: "idle", Transport: tr, Trigger: "deadline", Instant: inst})
			if inst == "partial" {
				cells = append(cells, C17Case{Side: "service", Op: "idle", Transport: tr, Trigger: "cancel", Instant: inst, Coalesced: true})
			}
		}
	}
	return cells
}

// TestC17Cells: the full product of the finite dimensions, once per cell (bounded-exhaustive).
func TestC17Cells(t *testing.T) {
	cells := c17Cells()
	shard, nshards := Shard()
	i := 0
	next := func() (C17Case, bool) {
		for i < len(cells) {
			k := i
			i++
			if k%nshards == shard {
				return cells[k], true
			}
		}
		return C17Case{}, false
	}
	RunCases(t, propC17, "C17Cells", true, next)
}

func TestC17Rapid(t *testing.T) {
	cells := c17Cells()
	p := propC17
	p.Gen = func(t *rapid.T) C17Case {
		c := rapid.SampledFrom(cells).Draw(t, "cell")
		c.Partial = rapid.IntRange(0, 200).Draw(t, "partial")
		c.Follow = rapid.IntRange(1, 3).Draw(t, "follow")
		c.FollowCut = rapid.SampledFrom([]int{0, 0, 1, 3, 7, 64}).Draw(t, "cut")
		return c
	}
	RunRapid(t, p, "C17Rapid")
}

// ---------------------------------------------------------------------------
// cancellation racing with a local Close: the usual `cancel(); conn.Close()` of a caller that gives up.
// Whatever the blocked operation returns, it returns promptly and its helper goroutine ends.

type CloseRaceCase struct {
	Transport  string `json:"transport"` // unix | tcp | pipe
	Op         string `json:"op"`        // receive | up-read | send
	CloseFirst bool   `json:"close_first"`
	Rounds     int    `json:"rounds"`
}

func execCloseRace(c CloseRaceCase, bound time.Duration) error {
	bound *= WatchdogScale()
	for round := 0; round < c.Rounds; round++ {
		cli, srv, cleanup, err := c17Peer(c.Transport, bound)
		if err != nil {
			return err
		}
		ctx, cancel := context.WithCancel(context.Background())
		done := make(chan error, 1)
		big := string(bytes.Repeat([]byte("W"), 4<<20))
		switch c.Op {
		case "send":
			go func() { _, e := cli.Send(ctx, "x.y.Big", map[string]string{"w": big}, 0); done <- e }()
		default:
			// (the in-memory transport has no buffer: the peer reads the request while Send writes it)
			reqRead := make(chan error, 1)
			go func() { _, rerr := srvReadFrame(srv, bound); reqRead <- rerr }()
			recv, serr := cli.Send(ctx, "x.y.M", nil, varlink.More)
			if serr != nil {
				cancel()
				srv.Close()
				cli.Close()
				cleanup()
				return fmt.Errorf("round %d: Send failed: %v", round, serr)
			}
			if rerr := <-reqRead; rerr != nil {
				cancel()
				srv.Close()
				cli.Close()
				cleanup()
				return fmt.Errorf("HARNESS: round %d: the request did not reach the peer: %v", round, rerr)
			}
			go func() { var out json.RawMessage; _, e := recv(ctx, &out); done <- e }()
		}
		time.Sleep(time.Duration(100+37*(round%9)) * time.Microsecond) // the operation is blocked now (nothing arrives, nothing is read)
		if c.CloseFirst {
			cli.Close()
			cancel()
		} else {
			cancel()
			cli.Close()
		}
		select {
		case <-done:
		case <-time.After(bound):
			srv.Close()
			cleanup()
			return fmt.Errorf("round %d: %s on %s did not return within %v after its context was cancelled and its connection closed", round, c.Op, c.Transport, bound)
		}
		srv.Close()
		cleanup()
	}
	if left := LibGoroutines(bound / 2); left != "" {
		return fmt.Errorf("after %d rounds of cancel + Close on a blocked %s (%s): library goroutines left behind:\n%s", c.Rounds, c.Op, c.Transport, left)
	}
	return nil
}

var propC17CloseRace = Register(Prop[CloseRaceCase]{ID: "C17", Name: "C17closerace", Check: func(c CloseRaceCase, st *Stats) error {
	err := execCloseRace(c, c17Bound)
	st.Case(HashOf(c), true, func() interface{} { return c }, "cancel+close-race", "transport:"+c.Transport, "op:"+c.Op)
	return err
}})

func TestC17CloseRace(t *testing.T) {
	rounds := 25
	if Thorough() {
		rounds = 150
	}
	var cases []CloseRaceCase
	for _, tr := range []string{"unix", "tcp", "pipe"} {
		for _, op := range []string{"receive", "send"} {
			for _, cf := range []bool{false, true} {
				cases = append(cases, CloseRaceCase{Transport: tr, Op: op, CloseFirst: cf, Rounds: rounds})
			}
		}
	}
	shard, nshards := Shard()
	i := 0
	RunCases(t, propC17CloseRace, "C17CloseRace", true, func() (CloseRaceCase, bool) {
		for i < len(cases) {
			k := i
			i++
			if k%nshards == shard {
				return cases[k], true
			}
		}
		return CloseRaceCase{}, false
	})
}
