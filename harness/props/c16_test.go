package props

// C16 No data races in the library under its intended concurrent use.
//
// A schedule (a set of operations started concurrently with generated start offsets, repeated
// for a number of rounds) is executed in a FRESH child process built with -race
// (GORACE=halt_on_error=0 log_path=...), because the detector reports a racing pair only once per
// process. The parent parses the child's race log: any report whose access stacks contain a
// github.com/varlink/go/varlink frame is a violation; reports confined to the harness are a harness
// failure (exit 2).

import (
	"bytes"
	"context"
	"encoding/json"
	"fmt"
	"os"
	"os/exec"
	"path/filepath"
	"regexp"
	"sort"
	"strings"
	"sync"
	"sync/atomic"
	"testing"
	"time"

	"github.com/varlink/go/varlink"
	"pgregory.net/rapid"
)

// RaceOp is one concurrently started operation.
type RaceOp struct {
	Kind     string `json:"kind"`      // shutdown getlistener register client client-hold call-cancel more upgrade-io ctx-cancel
	OffsetUS int    `json:"offset_us"` // start offset after the service is reachable
	SustainM int    `json:"sustain_ms"`
	N        int    `json:"n"`
}

// RaceCase is a schedule.
type RaceCase struct {
	Serve     string   `json:"serve"`     // listen | dolisten
	Transport string   `json:"transport"` // unix | tcp
	TimeoutMS int      `json:"timeout_ms"`
	Ops       []RaceOp `json:"ops"`
	Rounds    int      `json:"rounds"`
	Reuse     bool     `json:"reuse"` // serve the same Service object again in every round (else a fresh one)
	// SlowReg: a RegisterInterface call is already in flight when serving starts - its description getter takes 2 ms.
	// (It started before serving, so it is entitled to complete; it must then have completed before the registry is read.)
	SlowReg bool `json:"slow_reg,omitempty"`
	// Refused: every round starts with serving attempts that are refused (an address without protocol, an unknown
	// protocol) before the real one - whatever bookkeeping a refused attempt does must not weaken the next cycle
	Refused bool `json:"refused,omitempty"`
}

// slowRaceIface's description getter blocks until released.
type slowRaceIface struct {
	name    string
	release chan struct{}
}

func (s *slowRaceIface) VarlinkGetName() string { return s.name }
func (s *slowRaceIface) VarlinkGetDescription() string {
	<-s.release
	return "interface " + s.name + "\nmethod X() -> ()\n"
}
func (s *slowRaceIface) VarlinkDispatch(ctx context.Context, c varlink.Call, m string) error {
	return c.ReplyMethodNotImplemented(ctx, m)
}

var raceKinds = []string{"shutdown", "getlistener", "register", "client", "client-hold", "call-cancel", "call-deadline", "more", "upgrade-io", "ctx-cancel"}

// ---------------------------------------------------------------------------
// child side

type raceStats struct {
	Rounds   int `json:"rounds"`
	Overlaps int `json:"overlaps"`
	OpsRun   int `json:"ops_run"`
}

func helperRace() int {
	var c RaceCase
	if err := json.Unmarshal([]byte(os.Getenv("VERIF_SCHEDULE")), &c); err != nil {
		fmt.Fprintln(os.Stderr, "bad schedule:", err)
		return 9
	}
	st := runSchedule(c)
	b, _ := json.Marshal(st)
	fmt.Println("RACESTATS " + string(b))
	return 0
}

var raceRegCounter int64

type span struct{ a, b time.Time }

func runSchedule(c RaceCase) raceStats {
	var st raceStats
	var svc *varlink.Service
	newSvc := func() *varlink.Service {
		s, _ := varlink.NewService("v", "p", "1", "u")
		s.RegisterInterface(&ScriptIface{Name: "x.y", Desc: "interface x.y\nmethod X() -> ()\n", Log: &InvLog{}, AllowIO: true})
		// (registered out of lexical order: anything that reorders or rebuilds shared registry data on a read path has work to do)
		s.RegisterInterface(&ScriptIface{Name: "a.first", Desc: "interface a.first\nmethod X() -> ()\n", Log: &InvLog{}})
		return s
	}
	for round := 0; round < c.Rounds; round++ {
		if svc == nil || !c.Reuse {
			svc = newSvc()
		}
		addr := fmt.Sprintf("unix:@verif-race-%d-%d", os.Getpid(), atomic.AddInt64(&raceRegCounter, 1))
		if c.Transport == "tcp" {
			addr = fmt.Sprintf("tcp:127.0.0.1:%d", freePort())
		}
		ctx, cancel := context.WithCancel(context.Background())
		done := make(chan error, 1)
		timeout := time.Duration(c.TimeoutMS) * time.Millisecond
		regDone := make(chan struct{})
		if c.SlowReg {
			si := &slowRaceIface{name: fmt.Sprintf("s.low%d", atomic.AddInt64(&raceRegCounter, 1)), release: make(chan struct{})}
			go func() { svc.RegisterInterface(si); close(regDone) }()
			time.AfterFunc(2*time.Millisecond, func() { close(si.release) })
			time.Sleep(100 * time.Microsecond) // it is inside RegisterInterface now
		} else {
			close(regDone)
		}
		if c.Refused {
			svc.Listen(ctx, "verif-no-protocol", timeout)
			svc.Bind(ctx, "bogus:x")
			svc.Listen(ctx, "unix:", timeout)
		}
		if c.Serve == "dolisten" {
			if err := svc.Bind(ctx, addr); err != nil {
				cancel()
				continue
			}
			go func() { done <- svc.DoListen(ctx, timeout) }()
		} else {
			go func() { done <- svc.Listen(ctx, addr, timeout) }()
		}
		// wait until reachable (or the serving call already ended, e.g. by its timeout)
		up := false
		for i := 0; i < 2000 && !up; i++ {
			cctx, ccancel := context.WithTimeout(context.Background(), 200*time.Millisecond)
			if conn, err := varlink.NewConnection(cctx, addr); err == nil {
				conn.Close()
				up = true
			}
			ccancel()
			select {
			case e := <-done:
				done <- e
				i = 2000
			default:
			}
			if !up {
				time.Sleep(200 * time.Microsecond)
			}
		}
		var wg sync.WaitGroup
		var mu sync.Mutex
		var spans []span
		t0 := time.Now()
		for _, op := range c.Ops {
			wg.Add(1)
			go func(op RaceOp) {
				defer wg.Done()
				// spin or sleep to the start offset
				for time.Since(t0) < time.Duration(op.OffsetUS)*time.Microsecond {
					if op.OffsetUS > 300 {
						time.Sleep(50 * time.Microsecond)
					}
				}
				a := time.Now()
				runRaceOp(op, svc, addr, cancel)
				mu.Lock()
				spans = append(spans, span{a, time.Now()})
				mu.Unlock()
			}(op)
		}
		wg.Wait()
		<-regDone
		svc.Shutdown()
		select {
		case <-done:
		case <-time.After(10 * time.Second):
			fmt.Fprintln(os.Stderr, "serving call did not return")
		}
		cancel()
		st.Rounds++
		st.OpsRun += len(spans)
		for i := range spans {
			for j := i + 1; j < len(spans); j++ {
				if spans[i].a.Before(spans[j].b) && spans[j].a.Before(spans[i].b) {
					st.Overlaps++
				}
			}
		}
	}
	return st
}

func runRaceOp(op RaceOp, svc *varlink.Service, addr string, cancelServe context.CancelFunc) {
	sustain := time.Duration(op.SustainM) * time.Millisecond
	end := time.Now().Add(sustain)
	n := op.N
	if n < 1 {
		n = 1
	}
	dial := func() *varlink.Connection {
		ctx, cancel := context.WithTimeout(context.Background(), 300*time.Millisecond)
		defer cancel()
		c, err := varlink.NewConnection(ctx, addr)
		if err != nil {
			return nil
		}
		return c
	}
	short := func() (context.Context, context.CancelFunc) {
		return context.WithTimeout(context.Background(), 2*time.Second)
	}
	switch op.Kind {
	case "shutdown":
		svc.Shutdown()
	case "getlistener":
		for {
			svc.GetListener()
			if !time.Now().Before(end) {
				return
			}
		}
	case "register":
		for {
			svc.RegisterInterface(&ScriptIface{Name: fmt.Sprintf("r.i%d", atomic.AddInt64(&raceRegCounter, 1)), Desc: "d", Log: &InvLog{}})
			if !time.Now().Before(end) {
				return
			}
			time.Sleep(10 * time.Microsecond)
		}
	case "client":
		// first a burst: several connections introspect at the same instant (the very first introspection calls on a fresh service)
		var burst []*varlink.Connection
		for k := 0; k < 3; k++ {
			if c := dial(); c != nil {
				burst = append(burst, c)
			}
		}
		var bwg sync.WaitGroup
		gate := make(chan struct{})
		for _, c := range burst {
			bwg.Add(1)
			go func(c *varlink.Connection) {
				defer bwg.Done()
				defer c.Close()
				<-gate
				ctx, cancel := short()
				var names []string
				c.GetInfo(ctx, nil, nil, nil, nil, &names)
				c.GetInterfaceDescription(ctx, "a.first")
				cancel()
			}(c)
		}
		close(gate)
		bwg.Wait()
		for i := 0; i < n; i++ {
			if c := dial(); c != nil {
				ctx, cancel := short()
				c.GetInfo(ctx, nil, nil, nil, nil, nil)
				c.GetInterfaceDescription(ctx, "x.y")
				cancel()
				c.Close()
			}
		}
	case "client-hold":
		c := dial()
		if c == nil {
			return
		}
		defer c.Close()
		for {
			ctx, cancel := short()
			var out json.RawMessage
			err := c.Call(ctx, "x.y.M", json.RawMessage(`{"conn":0,"id":1,"script":[{"op":"reply","p":{"a":1}}]}`), &out)
			cancel()
			if err != nil || !time.Now().Before(end) {
				return
			}
			time.Sleep(20 * time.Microsecond)
		}
	case "call-cancel":
		for i := 0; i < n; i++ {
			c := dial()
			if c == nil {
				return
			}
			ctx, cancel := context.WithCancel(context.Background())
			time.AfterFunc(time.Duration(50+37*i)*time.Microsecond, cancel)
			var out json.RawMessage
			// the handler never replies: the call blocks until cancelled
			c.Call(ctx, "x.y.Silent", json.RawMessage(`{"conn":0,"id":2,"script":[]}`), &out)
			cancel()
			// the connection is used again by the same goroutine
			ctx2, cancel2 := context.WithTimeout(context.Background(), 20*time.Millisecond)
			c.GetInfo(ctx2, nil, nil, nil, nil, nil)
			cancel2()
			c.Close()
		}
	case "call-deadline":
		for i := 0; i < n; i++ {
			c := dial()
			if c == nil {
				return
			}
			// the same goroutine lets several calls expire by DEADLINE on one connection, then uses it again
			recv, err := c.Send(context.Background(), "x.y.Silent", json.RawMessage(`{"conn":0,"id":5,"script":[]}`), 0)
			if err == nil {
				for k := 0; k < 3; k++ {
					ctx, cancel := context.WithTimeout(context.Background(), time.Duration(200+150*k)*time.Microsecond)
					var out json.RawMessage
					recv(ctx, &out)
					cancel()
				}
			}
			ctx2, cancel2 := context.WithTimeout(context.Background(), 20*time.Millisecond)
			c.GetInfo(ctx2, nil, nil, nil, nil, nil)
			cancel2()
			c.Close()
		}
	case "more":
		c := dial()
		if c == nil {
			return
		}
		defer c.Close()
		ctx, cancel := short()
		defer cancel()
		var ops []string
		for i := 0; i < 5+n; i++ {
			ops = append(ops, `{"op":"reply","continues":true,"p":{"i":1}}`)
		}
		ops = append(ops, `{"op":"reply","p":{"last":true}}`)
		recv, err := c.Send(ctx, "x.y.More", json.RawMessage(`{"conn":0,"id":3,"script":[`+strings.Join(ops, ",")+`]}`), varlink.More)
		if err != nil {
			return
		}
		for {
			var out json.RawMessage
			fl, err := recv(ctx, &out)
			if err != nil || fl&varlink.Continues == 0 {
				return
			}
		}
	case "upgrade-io":
		c := dial()
		if c == nil {
			return
		}
		defer c.Close()
		ctx, cancel := short()
		defer cancel()
		up, err := c.Upgrade(ctx, "x.y.Up", json.RawMessage(`{"conn":0,"id":4,"script":[{"op":"reply","p":{}},{"op":"write","data":"aGVsbG8AaGVsbG8A"},{"op":"readbytes"},{"op":"read","n":64}]}`))
		if err != nil {
			return
		}
		var out json.RawMessage
		_, rwc, err := up(ctx, &out)
		if err != nil || rwc == nil {
			return
		}
		rwc.ReadBytes(ctx, 0)
		rwc.Write(ctx, []byte("frame\x00"))
		// a cancelled raw read, then a live one
		cctx, ccancel := context.WithCancel(context.Background())
		time.AfterFunc(80*time.Microsecond, ccancel)
		buf := make([]byte, 16)
		rwc.Read(cctx, buf)
		ccancel()
		rwc.Write(ctx, []byte("tail"))
		rwc.ReadBytes(ctx, 0)
	case "ctx-cancel":
		cancelServe()
	}
}

// ---------------------------------------------------------------------------
// parent side

var raceAccessRe = regexp.MustCompile(`(?m)^(Read|Write|Previous read|Previous write|Atomic read|Atomic write|Previous atomic read|Previous atomic write) at 0x[0-9a-f]+ by `)

// parseRaceReports splits a race log into reports and classifies each.
func parseRaceReports(log string) (library []string, harness []string, keys []string) {
	for _, rep := range strings.Split(log, "==================") {
		if !strings.Contains(rep, "DATA RACE") {
			continue
		}
		// the two access stacks: from each access header to the next blank line
		idx := raceAccessRe.FindAllStringIndex(rep, -1)
		var fns []string
		lib := false
		for _, ix := range idx {
			blk := rep[ix[0]:]
			if e := strings.Index(blk, "\n\n"); e >= 0 {
				blk = blk[:e]
			}
			first := ""
			for _, ln := range strings.Split(blk, "\n")[1:] {
				ln = strings.TrimSpace(ln)
				if strings.HasPrefix(ln, "github.com/varlink/go/varlink") {
					lib = true
					if first == "" {
						first = ln
						if p := strings.Index(first, "("); p > 0 && !strings.HasPrefix(first[p:], "(*") {
							first = first[:p]
						}
					}
				}
			}
			if first != "" {
				fns = append(fns, regexp.MustCompile(`\(0x[^)]*\)|\(\)$`).ReplaceAllString(first, ""))
			}
		}
		if lib {
			sort.Strings(fns)
			keys = append(keys, strings.Join(fns, " <-> "))
			library = append(library, rep)
		} else {
			harness = append(harness, rep)
		}
	}
	return
}

func execC16(c RaceCase, outDir string) (raceStats, []string, []string, error) {
	var st raceStats
	dir, err := os.MkdirTemp(outDir, "race")
	if err != nil {
		return st, nil, nil, fmt.Errorf("HARNESS: %v", err)
	}
	defer os.RemoveAll(dir)
	sched, _ := json.Marshal(c)
	cmd := exec.Command(os.Args[0], "-test.run", "^$")
	env := []string{}
	for _, e := range os.Environ() {
		if !strings.HasPrefix(e, "GORACE=") && !strings.HasPrefix(e, "VERIF_HELPER=") {
			env = append(env, e)
		}
	}
	cmd.Env = append(env, "VERIF_HELPER=race", "VERIF_SCHEDULE="+string(sched), "GORACE=halt_on_error=0 log_path="+filepath.Join(dir, "race")+" exitcode=66 history_size=3")
	var stdout, stderr bytes.Buffer
	cmd.Stdout, cmd.Stderr = &stdout, &stderr
	done := make(chan error, 1)
	if err := cmd.Start(); err != nil {
		return st, nil, nil, fmt.Errorf("HARNESS: start child: %v", err)
	}
	go func() { done <- cmd.Wait() }()
	select {
	case <-done:
	case <-time.After(120 * time.Second):
		cmd.Process.Kill()
		<-done
		return st, nil, nil, fmt.Errorf("HARNESS: schedule child did not finish within 120 s")
	}
	if i := strings.Index(stdout.String(), "RACESTATS "); i >= 0 {
		line := stdout.String()[i+len("RACESTATS "):]
		if j := strings.Index(line, "\n"); j >= 0 {
			line = line[:j]
		}
		json.Unmarshal([]byte(line), &st)
	} else if !strings.Contains(stderr.String(), "DATA RACE") {
		return st, nil, nil, fmt.Errorf("HARNESS: schedule child produced no statistics; stderr: %s", Preview(stderr.Bytes()))
	}
	var log strings.Builder
	files, _ := filepath.Glob(filepath.Join(dir, "race.*"))
	for _, f := range files {
		b, _ := os.ReadFile(f)
		log.Write(b)
	}
	lib, harness, keys := parseRaceReports(log.String())
	if len(lib) > 0 {
		return st, keys, harness, fmt.Errorf("the race detector reported %d data race(s) involving library code; first: %s\n%s", len(lib), keys[0], trimReport(lib[0]))
	}
	return st, nil, harness, nil
}

func trimReport(r string) string {
	lines := strings.Split(strings.TrimSpace(r), "\n")
	if len(lines) > 45 {
		lines = lines[:45]
	}
	return strings.Join(lines, "\n")
}

func checkC16(c RaceCase, st *Stats) error {
	rs, keys, harness, err := execC16(c, os.TempDir())
	kinds := map[string]bool{}
	for _, o := range c.Ops {
		kinds[o.Kind] = true
	}
	var ks []string
	for k := range kinds {
		ks = append(ks, k)
	}
	sort.Strings(ks)
	labels := []string{"serve:" + c.Serve, "transport:" + c.Transport, "kinds:" + strings.Join(ks, "+")}
	if c.Reuse {
		labels = append(labels, "object-reused-across-rounds")
	}
	st.Count("rounds", int64(rs.Rounds))
	st.Count("overlapping-op-pairs", int64(rs.Overlaps))
	st.Case(HashOf(c), rs.Overlaps > 0, func() interface{} { return c }, labels...)
	if err == nil && len(harness) > 0 {
		return fmt.Errorf("HARNESS: the race detector reported a race confined to harness code:\n%s", trimReport(harness[0]))
	}
	_ = keys
	return err
}

var propC16 = Register(Prop[RaceCase]{ID: "C16", Name: "C16", Check: checkC16})

func runRaceParallel(t *testing.T, name string, exhaustive bool, cases []RaceCase, workers int) {
	st := NewStats(name)
	st.Exhaustive = exhaustive
	completed := false
	defer func() { st.Flush(completed) }()
	var wg sync.WaitGroup
	var mu sync.Mutex
	var firstErr error
	var firstCase RaceCase
	ch := make(chan RaceCase)
	for w := 0; w < workers; w++ {
		wg.Add(1)
		go func() {
			defer wg.Done()
			for c := range ch {
				if err := Guard(func() error { return checkC16(c, st) }); err != nil {
					mu.Lock()
					if firstErr == nil || (strings.HasPrefix(firstErr.Error(), "HARNESS") && !strings.HasPrefix(err.Error(), "HARNESS")) {
						firstErr, firstCase = err, c
					}
					mu.Unlock()
				}
			}
		}()
	}
	for _, c := range cases {
		mu.Lock()
		stop := firstErr != nil && !strings.HasPrefix(firstErr.Error(), "HARNESS")
		mu.Unlock()
		if stop {
			break
		}
		ch <- c
	}
	close(ch)
	wg.Wait()
	if firstErr != nil {
		if !strings.HasPrefix(firstErr.Error(), "HARNESS") {
			firstCase, firstErr = shrinkRaceCase(firstCase, firstErr, st)
		}
		SaveFailing("C16", "C16", firstCase, firstErr.Error())
		t.Fatalf("C16 violated: %v", firstErr)
	}
	completed = true
}

// shrinkRaceCase drops operations one at a time (each candidate runs in fresh child processes, up to
// three times, because a race report is schedule-dependent) and keeps every smaller schedule that
// still produces a report with library frames.
func shrinkRaceCase(c RaceCase, err error, st *Stats) (RaceCase, error) {
	fails := func(x RaceCase) error {
		for try := 0; try < 3; try++ {
			st.Count("shrink-runs", 1)
			if _, _, _, e := execC16(x, os.TempDir()); e != nil && !strings.HasPrefix(e.Error(), "HARNESS") {
				return e
			}
		}
		return nil
	}
	for changed := true; changed && len(c.Ops) > 1; {
		changed = false
		for i := range c.Ops {
			cand := c
			cand.Ops = append(append([]RaceOp(nil), c.Ops[:i]...), c.Ops[i+1:]...)
			if e := fails(cand); e != nil {
				c, err, changed = cand, e, true
				break
			}
		}
	}
	return c, err
}

func defaultOp(kind string, i int) RaceOp {
	return RaceOp{Kind: kind, OffsetUS: 100 * i, SustainM: 15, N: 3}
}

// TestC16Pairs: every pair (and, thorough, every triple) of operation kinds, under both serving
// calls, with sustained variants; bounded-exhaustive over kinds.
func TestC16Pairs(t *testing.T) {
	var cases []RaceCase
	rounds := 6
	if Thorough() {
		rounds = 25
	}
	k := 0
	for i := 0; i < len(raceKinds); i++ {
		for j := i; j < len(raceKinds); j++ {
			serve := []string{"listen", "dolisten"}[k%2]
			tr := []string{"unix", "unix", "tcp"}[k%3]
			k++
			ops := []RaceOp{defaultOp(raceKinds[i], 0), defaultOp(raceKinds[j], 1)}
			// a held connection keeps the drain phase open for the other operations
			if raceKinds[i] != "client-hold" && raceKinds[j] != "client-hold" {
				ops = append(ops, RaceOp{Kind: "client-hold", SustainM: 25})
			}
			cases = append(cases, RaceCase{Serve: serve, Transport: tr, Ops: ops, Rounds: rounds, Reuse: k%2 == 0, SlowReg: k%3 == 1})
			if Thorough() {
				for l := j; l < len(raceKinds); l++ {
					cases = append(cases, RaceCase{Serve: []string{"listen", "dolisten"}[l%2], Transport: tr, Ops: []RaceOp{defaultOp(raceKinds[i], 0), defaultOp(raceKinds[j], 1), defaultOp(raceKinds[l], 2)}, Rounds: rounds, Reuse: l%2 == 0, TimeoutMS: []int{0, 30}[l%2]})
				}
			}
		}
	}
	// registration attempts during the drain phase (Shutdown issued, a client still connected), after refused serving attempts
	for v := 0; v < 4; v++ {
		cases = append(cases, RaceCase{Serve: []string{"listen", "dolisten"}[v%2], Transport: "unix", Rounds: rounds, Reuse: v >= 2, Refused: true,
			Ops: []RaceOp{{Kind: "client-hold", SustainM: 30}, {Kind: "client", OffsetUS: 400, N: 2}, {Kind: "shutdown", OffsetUS: 600}, {Kind: "register", OffsetUS: 700, SustainM: 20}}})
	}
	shard, nshards := Shard()
	var mine []RaceCase
	for i, c := range cases {
		if i%nshards == shard {
			mine = append(mine, c)
		}
	}
	runRaceParallel(t, "C16Pairs", true, mine, 8)
}

func genC16(t *rapid.T) RaceCase {
	c := RaceCase{Serve: rapid.SampledFrom([]string{"listen", "dolisten"}).Draw(t, "serve"), Transport: rapid.SampledFrom([]string{"unix", "unix", "tcp"}).Draw(t, "tr"),
		TimeoutMS: rapid.SampledFrom([]int{0, 0, 20, 200}).Draw(t, "timeout"), Rounds: rapid.IntRange(3, 12).Draw(t, "rounds"), Reuse: rapid.Bool().Draw(t, "reuse"), SlowReg: rapid.IntRange(0, 2).Draw(t, "slowreg") == 0, Refused: rapid.IntRange(0, 2).Draw(t, "refused") == 0}
	n := rapid.IntRange(2, 5).Draw(t, "nops")
	for i := 0; i < n; i++ {
		c.Ops = append(c.Ops, RaceOp{Kind: rapid.SampledFrom(raceKinds).Draw(t, "kind"), OffsetUS: rapid.IntRange(0, 20).Draw(t, "off") * 100,
			SustainM: rapid.SampledFrom([]int{0, 5, 20, 50}).Draw(t, "sustain"), N: rapid.IntRange(1, 4).Draw(t, "n")})
	}
	return c
}

// TestC16Rapid draws schedules with rapid; they are executed 8 at a time (one child process each).
func TestC16Rapid(t *testing.T) {
	n := envInt("VERIF_C16_SCHEDULES", 60)
	var cases []RaceCase
	var mu sync.Mutex
	// rapid is used as the generator only (Custom + Example-like draw through Check with a counter)
	rapid.Check(t, func(rt *rapid.T) {
		c := genC16(rt)
		mu.Lock()
		if len(cases) < n {
			cases = append(cases, c)
		}
		mu.Unlock()
	})
	runRaceParallel(t, "C16Rapid", false, cases, 8)
}
