package props

// Our own syntax tree for varlink interface descriptions, a canonical printer,
// a converter from the parser's result, and a bounded-exhaustive enumerator.
// Nothing here shares code with /repo/varlink/idl.

import (
	"fmt"
	"strings"

	"github.com/varlink/go/varlink/idl"
)

// Ty is a varlink type. K ∈ bool int float string object array maybe map struct enum alias.
type Ty struct {
	K      string  `json:"k"`
	Elem   *Ty     `json:"e,omitempty"`
	Alias  string  `json:"a,omitempty"`
	Fields []Field `json:"f,omitempty"`
}

// Field is a struct field (T != nil) or an enum name (T == nil).
type Field struct {
	Name string `json:"n"`
	T    *Ty    `json:"t,omitempty"`
}

// Member is a type alias, method or error.
type Member struct {
	Kind string `json:"kind"` // "type" | "method" | "error"
	Name string `json:"name"`
	T    *Ty    `json:"t,omitempty"`   // alias body / error parameters (nil = typeless error)
	In   *Ty    `json:"in,omitempty"`  // method input
	Out  *Ty    `json:"out,omitempty"` // method output
	// Doc: documentation lines (comment texts without the "# " prefix). DocMode:
	// "none" = no comment anywhere before the member: Doc must be "";
	// "block" = canonical block directly above: Doc lines must match;
	// "free" = comment placement outside what the statement defines: not asserted.
	Doc     []string `json:"doc,omitempty"`
	DocMode string   `json:"docmode,omitempty"`
}

// Iface is a whole description.
type Iface struct {
	Name    string   `json:"name"`
	Doc     []string `json:"doc,omitempty"`
	DocMode string   `json:"docmode,omitempty"`
	Members []Member `json:"members"`
}

func tyBuiltin(k string) *Ty { return &Ty{K: k} }

// ---------------------------------------------------------------------------
// canonical compact printer (no optional whitespace at all, one '\n' between members)

func printTy(b *strings.Builder, t *Ty) {
	switch t.K {
	case "bool", "int", "float", "string", "object":
		b.WriteString(t.K)
	case "alias":
		b.WriteString(t.Alias)
	case "array":
		b.WriteString("[]")
		printTy(b, t.Elem)
	case "map":
		b.WriteString("[string]")
		printTy(b, t.Elem)
	case "maybe":
		b.WriteString("?")
		printTy(b, t.Elem)
	case "struct", "enum":
		b.WriteString("(")
		for i, f := range t.Fields {
			if i > 0 {
				b.WriteString(",")
			}
			b.WriteString(f.Name)
			if f.T != nil {
				b.WriteString(":")
				printTy(b, f.T)
			}
		}
		b.WriteString(")")
	default:
		b.WriteString("<?" + t.K + "?>")
	}
}

// PrintCompact renders the tree with the minimum of whitespace.
func PrintCompact(i *Iface) string {
	var b strings.Builder
	b.WriteString("interface " + i.Name)
	for _, m := range i.Members {
		b.WriteString("\n")
		switch m.Kind {
		case "type":
			b.WriteString("type " + m.Name)
			printTy(&b, m.T)
		case "method":
			b.WriteString("method " + m.Name)
			printTy(&b, m.In)
			b.WriteString("->")
			printTy(&b, m.Out)
		case "error":
			b.WriteString("error " + m.Name)
			if m.T != nil {
				printTy(&b, m.T)
			}
		}
	}
	return b.String()
}

// ---------------------------------------------------------------------------
// conversion from the parser's result

var kindNames = map[idl.TypeKind]string{
	idl.TypeBool: "bool", idl.TypeInt: "int", idl.TypeFloat: "float", idl.TypeString: "string",
	idl.TypeObject: "object", idl.TypeArray: "array", idl.TypeMaybe: "maybe", idl.TypeMap: "map",
	idl.TypeStruct: "struct", idl.TypeEnum: "enum", idl.TypeAlias: "alias",
}

func tyFromParser(t *idl.Type, depth int) (*Ty, error) {
	if t == nil {
		return nil, nil
	}
	if depth > 10000 {
		return nil, fmt.Errorf("type nesting beyond 10000 (cyclic tree?)")
	}
	k, ok := kindNames[t.Kind]
	if !ok {
		return nil, fmt.Errorf("unknown TypeKind %d in tree", t.Kind)
	}
	out := &Ty{K: k}
	switch k {
	case "array", "map", "maybe":
		if t.ElementType == nil {
			return nil, fmt.Errorf("%s without element type", k)
		}
		e, err := tyFromParser(t.ElementType, depth+1)
		if err != nil {
			return nil, err
		}
		out.Elem = e
		if t.Alias != "" || len(t.Fields) != 0 {
			return nil, fmt.Errorf("%s carries alias/fields", k)
		}
	case "alias":
		out.Alias = t.Alias
		if t.Alias == "" {
			return nil, fmt.Errorf("alias reference with empty name")
		}
		if t.ElementType != nil || len(t.Fields) != 0 {
			return nil, fmt.Errorf("alias carries element/fields")
		}
	case "struct", "enum":
		if t.ElementType != nil || t.Alias != "" {
			return nil, fmt.Errorf("%s carries element/alias", k)
		}
		for _, f := range t.Fields {
			nf := Field{Name: f.Name}
			if f.Type != nil {
				ft, err := tyFromParser(f.Type, depth+1)
				if err != nil {
					return nil, err
				}
				nf.T = ft
			}
			out.Fields = append(out.Fields, nf)
		}
	default:
		if t.ElementType != nil || t.Alias != "" || len(t.Fields) != 0 {
			return nil, fmt.Errorf("builtin %s carries element/alias/fields", k)
		}
	}
	return out, nil
}

// FromParser converts the parser's tree, checking that Aliases/Methods/Errors and the
// combined Members list describe the same members in the same order.
func FromParser(p *idl.IDL) (*Iface, error) {
	out := &Iface{Name: p.Name}
	ai, mi, ei := 0, 0, 0
	for idx, m := range p.Members {
		switch v := m.(type) {
		case *idl.Alias:
			if ai >= len(p.Aliases) || p.Aliases[ai] != v {
				return nil, fmt.Errorf("Members[%d] (type %s) is not Aliases[%d]", idx, v.Name, ai)
			}
			ai++
			t, err := tyFromParser(v.Type, 0)
			if err != nil {
				return nil, fmt.Errorf("type %s: %v", v.Name, err)
			}
			if t == nil {
				return nil, fmt.Errorf("type %s has nil Type", v.Name)
			}
			out.Members = append(out.Members, Member{Kind: "type", Name: v.Name, T: t, Doc: docLines(v.Doc)})
		case *idl.Method:
			if mi >= len(p.Methods) || p.Methods[mi] != v {
				return nil, fmt.Errorf("Members[%d] (method %s) is not Methods[%d]", idx, v.Name, mi)
			}
			mi++
			in, err := tyFromParser(v.In, 0)
			if err != nil {
				return nil, fmt.Errorf("method %s in: %v", v.Name, err)
			}
			o, err := tyFromParser(v.Out, 0)
			if err != nil {
				return nil, fmt.Errorf("method %s out: %v", v.Name, err)
			}
			if in == nil || o == nil {
				return nil, fmt.Errorf("method %s has nil In/Out", v.Name)
			}
			out.Members = append(out.Members, Member{Kind: "method", Name: v.Name, In: in, Out: o, Doc: docLines(v.Doc)})
		case *idl.Error:
			if ei >= len(p.Errors) || p.Errors[ei] != v {
				return nil, fmt.Errorf("Members[%d] (error %s) is not Errors[%d]", idx, v.Name, ei)
			}
			ei++
			t, err := tyFromParser(v.Type, 0)
			if err != nil {
				return nil, fmt.Errorf("error %s: %v", v.Name, err)
			}
			out.Members = append(out.Members, Member{Kind: "error", Name: v.Name, T: t, Doc: docLines(v.Doc)})
		default:
			return nil, fmt.Errorf("Members[%d] has dynamic type %T", idx, m)
		}
	}
	if ai != len(p.Aliases) || mi != len(p.Methods) || ei != len(p.Errors) {
		return nil, fmt.Errorf("Members has %d/%d/%d aliases/methods/errors, lists have %d/%d/%d",
			ai, mi, ei, len(p.Aliases), len(p.Methods), len(p.Errors))
	}
	out.Doc = docLines(p.Doc)
	return out, nil
}

// docLines splits a doc string into trimmed lines ("" → nil).
func docLines(s string) []string {
	if s == "" {
		return nil
	}
	ls := strings.Split(s, "\n")
	for i := range ls {
		ls[i] = strings.Trim(ls[i], " \t\r")
	}
	return ls
}

// ---------------------------------------------------------------------------
// structural comparison (ignores Doc/DocMode, those are compared separately)

func tyEqual(a, b *Ty) bool {
	if a == nil || b == nil {
		return a == b
	}
	if a.K != b.K || a.Alias != b.Alias || len(a.Fields) != len(b.Fields) {
		return false
	}
	if !tyEqual(a.Elem, b.Elem) {
		return false
	}
	for i := range a.Fields {
		if a.Fields[i].Name != b.Fields[i].Name || !tyEqual(a.Fields[i].T, b.Fields[i].T) {
			return false
		}
	}
	return true
}

// DiffIface returns "" when want and got denote the same tree, else a description.
func DiffIface(want, got *Iface) string {
	if want.Name != got.Name {
		return fmt.Sprintf("interface name: want %q got %q", want.Name, got.Name)
	}
	if len(want.Members) != len(got.Members) {
		return fmt.Sprintf("member count: want %d got %d", len(want.Members), len(got.Members))
	}
	for i := range want.Members {
		w, g := want.Members[i], got.Members[i]
		if w.Kind != g.Kind || w.Name != g.Name {
			return fmt.Sprintf("member %d: want %s %s got %s %s", i, w.Kind, w.Name, g.Kind, g.Name)
		}
		if !tyEqual(w.T, g.T) || !tyEqual(w.In, g.In) || !tyEqual(w.Out, g.Out) {
			var wb, gb strings.Builder
			one := Iface{Name: "x.y", Members: []Member{w}}
			two := Iface{Name: "x.y", Members: []Member{g}}
			wb.WriteString(PrintCompact(&one))
			gb.WriteString(PrintCompact(&two))
			return fmt.Sprintf("member %d (%s %s): types differ: want %q got %q (kinds want %s got %s)", i, w.Kind, w.Name,
				wb.String(), gb.String(), tyKinds(w), tyKinds(g))
		}
	}
	return ""
}

func tyKinds(m Member) string {
	var b strings.Builder
	var walk func(t *Ty)
	walk = func(t *Ty) {
		if t == nil {
			b.WriteString("nil ")
			return
		}
		b.WriteString(t.K + " ")
		if t.Elem != nil {
			walk(t.Elem)
		}
		for _, f := range t.Fields {
			if f.T != nil {
				walk(f.T)
			}
		}
	}
	walk(m.T)
	walk(m.In)
	walk(m.Out)
	return b.String()
}

// ---------------------------------------------------------------------------
// bounded-exhaustive enumeration

var builtinKinds = []string{"bool", "int", "float", "string", "object"}

// enumTypes returns all types with exactly n constructor nodes (n ≥ 1), using at most
// two fields per list, field names a/b, enum names x/y, one alias name.
func enumTypes(n int, aliasName string, memo map[int][]*Ty) []*Ty {
	if v, ok := memo[n]; ok {
		return v
	}
	var out []*Ty
	if n == 1 {
		for _, k := range builtinKinds {
			out = append(out, tyBuiltin(k))
		}
		out = append(out, &Ty{K: "alias", Alias: aliasName})
		out = append(out, &Ty{K: "struct"})
		out = append(out, &Ty{K: "enum", Fields: []Field{{Name: "x"}}})
		out = append(out, &Ty{K: "enum", Fields: []Field{{Name: "x"}, {Name: "y"}}})
	} else {
		for _, e := range enumTypes(n-1, aliasName, memo) {
			if e.K != "maybe" {
				out = append(out, &Ty{K: "maybe", Elem: e})
			}
			out = append(out, &Ty{K: "array", Elem: e})
			out = append(out, &Ty{K: "map", Elem: e})
			out = append(out, &Ty{K: "struct", Fields: []Field{{Name: "a", T: e}}})
		}
		// two fields: sizes i + j = n-1
		for i := 1; i <= n-2; i++ {
			j := n - 1 - i
			for _, a := range enumTypes(i, aliasName, memo) {
				for _, b := range enumTypes(j, aliasName, memo) {
					out = append(out, &Ty{K: "struct", Fields: []Field{{Name: "a", T: a}, {Name: "b", T: b}}})
				}
			}
		}
	}
	memo[n] = out
	return out
}

// EnumTopLevel returns all struct (and, with enums=true, enum) types of up to maxNodes nodes.
func EnumTopLevel(maxNodes int, enums bool) []*Ty {
	memo := map[int][]*Ty{}
	var out []*Ty
	for n := 1; n <= maxNodes; n++ {
		for _, t := range enumTypes(n, "T", memo) {
			if t.K == "struct" || (enums && t.K == "enum") {
				out = append(out, t)
			}
		}
	}
	return out
}

// EnumIfaces calls f for every interface of the bounded space, in a fixed order:
// one or two members; every interface contains at least one method; the alias T is
// declared whenever it is referenced... (it need not be: the parser does not resolve
// references, and the statement's tree is purely syntactic).
// Returns the number of trees visited. f returning false stops the enumeration.
func EnumIfaces(maxNodes int, f func(idx int, i *Iface) bool) int {
	structs := EnumTopLevel(maxNodes, false)
	withEnums := EnumTopLevel(maxNodes, true)
	small := []*Ty{{K: "struct"}, {K: "struct", Fields: []Field{{Name: "a", T: tyBuiltin("int")}}}}
	var methods, others []Member
	for _, s := range structs {
		for _, o := range small {
			methods = append(methods, Member{Kind: "method", Name: "M", In: s, Out: o})
		}
	}
	for _, s := range structs {
		if len(s.Fields) == 0 || (len(s.Fields) == 1 && s.Fields[0].T.K == "int") {
			continue // already covered as output of the loop above
		}
		for _, in := range small {
			methods = append(methods, Member{Kind: "method", Name: "M", In: in, Out: s})
		}
	}
	for _, s := range withEnums {
		others = append(others, Member{Kind: "type", Name: "T", T: s})
	}
	others = append(others, Member{Kind: "error", Name: "E"})
	for _, s := range structs {
		others = append(others, Member{Kind: "error", Name: "E", T: s})
	}
	idx := 0
	emit := func(ms ...Member) bool {
		i := &Iface{Name: "a.b", Members: append([]Member(nil), ms...)}
		ok := f(idx, i)
		idx++
		return ok
	}
	for _, m := range methods {
		if !emit(m) {
			return idx
		}
	}
	fixed := Member{Kind: "method", Name: "Z", In: &Ty{K: "struct"}, Out: &Ty{K: "struct"}}
	for _, o := range others {
		if !emit(o, fixed) {
			return idx
		}
		if !emit(fixed, o) {
			return idx
		}
	}
	// two-member combinations with a non-trivial method: every "other" against a
	// stride of the methods (the full product is visited across shards in the thorough tier).
	for oi, o := range others {
		for mi, m := range methods {
			_ = oi
			_ = mi
			if !emit(o, m) {
				return idx
			}
			if !emit(m, o) {
				return idx
			}
		}
	}
	return idx
}
