package props

// JSON documents as raw text (so number spellings and escapes survive), and an
// independent JSON equality: objects as member sets, strings code point by code
// point, numbers by their literal digits.

import (
	"bytes"
	"encoding/json"
	"fmt"
	"io"
	"sort"
	"strings"
	"unicode/utf8"

	"pgregory.net/rapid"
)

var hardRunes = []rune{0, 1, 7, 0x0b, 0x1b, 0x1f, 0xe0001, 0x10fffd, '"', '\\', '/', '<', '>', '&', '\n', '\r', '\t', '\b', '\f', 0x7f, 0x80, 0xe9, 0x2028, 0x2029,
	0xfffd, 0xffff, 0x10000, 0x1f600, 0x10ffff, 0xd7ff, 0xe000, ' ', 'a', 'Z', '0'}

var numberSpellings = []string{"0", "-0", "1", "-1", "42", "9007199254740993", "-9007199254740993", "9223372036854775807",
	"-9223372036854775808", "18446744073709551616", "12345678901234567890123", "0.1", "0.10", "1.0", "-1.5e3", "1E+2", "1e-2", "1e400",
	"-1e-400", "3.141592653589793238462643383279", "2e0", "0e0", "0.0", "123456789.123456789"}

// escapeLookalikes are string VALUES whose characters spell what an encoder's escape looks like (a JSON document or a
// piece of source text carried inside a string). A codec that post-processes its output bytes, or one that renders
// strings with another language's quoting rules, treats them differently from ordinary text.
var escapeLookalikes = []string{`\u003c`, `\u003e`, `\u0026`, `\u0000`, `\u2028`, `\ud83d\ude00`, `\n`, `\"`, `\\`, `\/`, `\x00`, `\a`, `\v`, `\U0001F600`,
	`{"a":"\u003cb\u003e \u0026 \"q\""}`, `a\u003cb`, `%s`, `%q%!`, `&lt;`, `\\u003c`, "\\\u0000", `"`, `\`}

func genRunes(t *rapid.T, label string, maxLen int) []rune {
	if maxLen >= 6 && rapid.IntRange(0, 7).Draw(t, label+"lookalike") == 0 {
		return []rune(rapid.SampledFrom(escapeLookalikes).Draw(t, label+"lk"))
	}
	n := rapid.IntRange(0, maxLen).Draw(t, label+"len")
	out := make([]rune, 0, n)
	for i := 0; i < n; i++ {
		if rapid.IntRange(0, 2).Draw(t, label+"hard") == 0 {
			out = append(out, rapid.SampledFrom(hardRunes).Draw(t, label+"r"))
		} else {
			out = append(out, rune(rapid.IntRange(0x20, 0x7e).Draw(t, label+"c")))
		}
	}
	return out
}

// jsonStringText renders runes as a JSON string literal, choosing escapes at random.
func jsonStringText(t *rapid.T, rs []rune, label string) string {
	var b strings.Builder
	b.WriteByte('"')
	for _, r := range rs {
		mustEscape := r < 0x20 || r == '"' || r == '\\'
		esc := mustEscape
		if !esc && t != nil {
			esc = rapid.IntRange(0, 7).Draw(t, label+"esc") == 0
		}
		if !esc {
			b.WriteRune(r)
			continue
		}
		short := map[rune]string{'"': `\"`, '\\': `\\`, '/': `\/`, '\n': `\n`, '\r': `\r`, '\t': `\t`, '\b': `\b`, '\f': `\f`}
		if s, ok := short[r]; ok && (t == nil || rapid.Bool().Draw(t, label+"short")) {
			b.WriteString(s)
			continue
		}
		if r >= 0x10000 {
			r -= 0x10000
			fmt.Fprintf(&b, `\u%04x\u%04X`, 0xd800+(r>>10), 0xdc00+(r&0x3ff))
		} else {
			fmt.Fprintf(&b, `\u%04x`, r)
		}
	}
	b.WriteByte('"')
	return b.String()
}

// JSONGen configures GenJSON.
type JSONGen struct {
	MaxDepth  int
	MaxWidth  int
	MaxString int
}

func (g JSONGen) ws(t *rapid.T) string {
	if rapid.IntRange(0, 9).Draw(t, "jws") == 0 {
		return rapid.SampledFrom([]string{" ", "\n", "\t", "\r\n", "  "}).Draw(t, "jwsv")
	}
	return ""
}

// Value draws an arbitrary JSON value as text.
func (g JSONGen) Value(t *rapid.T, depth int) string {
	max := 7
	if depth >= g.MaxDepth {
		max = 5
	}
	switch rapid.IntRange(0, max).Draw(t, "jkind") {
	case 0:
		return "null"
	case 1:
		return rapid.SampledFrom([]string{"true", "false"}).Draw(t, "jbool")
	case 2:
		if rapid.Bool().Draw(t, "jnumlist") {
			return rapid.SampledFrom(numberSpellings).Draw(t, "jnum")
		}
		return fmt.Sprintf("%d", rapid.Int64().Draw(t, "jint"))
	case 3, 4, 5:
		return jsonStringText(t, genRunes(t, "js", g.MaxString), "js")
	case 6:
		n := rapid.IntRange(0, g.MaxWidth).Draw(t, "jalen")
		var b strings.Builder
		b.WriteString("[" + g.ws(t))
		for i := 0; i < n; i++ {
			if i > 0 {
				b.WriteString("," + g.ws(t))
			}
			b.WriteString(g.Value(t, depth+1))
		}
		b.WriteString(g.ws(t) + "]")
		return b.String()
	default:
		return g.Object(t, depth+1)
	}
}

// Object draws a JSON object (unique member names) as text.
func (g JSONGen) Object(t *rapid.T, depth int) string {
	n := rapid.IntRange(0, g.MaxWidth).Draw(t, "jolen")
	if depth > g.MaxDepth {
		n = 0
	}
	seen := map[string]bool{}
	var b strings.Builder
	b.WriteString("{" + g.ws(t))
	k := 0
	for i := 0; i < n; i++ {
		rs := genRunes(t, "jk", 6)
		key := string(rs)
		if seen[key] {
			continue
		}
		seen[key] = true
		if k > 0 {
			b.WriteString("," + g.ws(t))
		}
		k++
		b.WriteString(jsonStringText(t, rs, "jk"))
		b.WriteString(g.ws(t) + ":" + g.ws(t))
		b.WriteString(g.Value(t, depth+1))
	}
	b.WriteString(g.ws(t) + "}")
	return b.String()
}

// DefaultJSON is the generator used for call/reply parameters in most properties.
var DefaultJSON = JSONGen{MaxDepth: 4, MaxWidth: 4, MaxString: 12}

// BigString returns a JSON string literal of about n bytes built from a hard pattern.
func BigString(n int) string {
	unit := "a\\u0000\\\"é\\n😀</>&"
	var b strings.Builder
	b.WriteByte('"')
	for b.Len() < n {
		b.WriteString(unit)
	}
	b.WriteByte('"')
	return b.String()
}

// ---------------------------------------------------------------------------
// equality

type jnode struct {
	kind byte // 'n' null, 'b' bool, '#' number, 's' string, 'a' array, 'o' object
	b    bool
	s    string // string value or number literal
	arr  []*jnode
	obj  map[string]*jnode
	dup  bool
}

func parseJSONTree(data []byte) (*jnode, error) {
	dec := json.NewDecoder(bytes.NewReader(data))
	dec.UseNumber()
	n, err := parseJNode(dec)
	if err != nil {
		return nil, err
	}
	if _, err := dec.Token(); err != io.EOF {
		return nil, fmt.Errorf("trailing data after JSON value")
	}
	return n, nil
}

func parseJNode(dec *json.Decoder) (*jnode, error) {
	tok, err := dec.Token()
	if err != nil {
		return nil, err
	}
	switch v := tok.(type) {
	case nil:
		return &jnode{kind: 'n'}, nil
	case bool:
		return &jnode{kind: 'b', b: v}, nil
	case json.Number:
		return &jnode{kind: '#', s: string(v)}, nil
	case string:
		return &jnode{kind: 's', s: v}, nil
	case json.Delim:
		switch v {
		case '[':
			n := &jnode{kind: 'a'}
			for dec.More() {
				c, err := parseJNode(dec)
				if err != nil {
					return nil, err
				}
				n.arr = append(n.arr, c)
			}
			if _, err := dec.Token(); err != nil {
				return nil, err
			}
			return n, nil
		case '{':
			n := &jnode{kind: 'o', obj: map[string]*jnode{}}
			for dec.More() {
				kt, err := dec.Token()
				if err != nil {
					return nil, err
				}
				k, ok := kt.(string)
				if !ok {
					return nil, fmt.Errorf("non-string key")
				}
				c, err := parseJNode(dec)
				if err != nil {
					return nil, err
				}
				if _, d := n.obj[k]; d {
					n.dup = true
				}
				n.obj[k] = c
			}
			if _, err := dec.Token(); err != nil {
				return nil, err
			}
			return n, nil
		}
	}
	return nil, fmt.Errorf("unexpected token %v", tok)
}

func jdiff(path string, a, b *jnode) string {
	if a.kind != b.kind {
		return fmt.Sprintf("%s: kind %c vs %c", path, a.kind, b.kind)
	}
	switch a.kind {
	case 'b':
		if a.b != b.b {
			return path + ": bool differs"
		}
	case '#':
		if a.s != b.s {
			return fmt.Sprintf("%s: number %s vs %s", path, a.s, b.s)
		}
	case 's':
		if a.s != b.s {
			return fmt.Sprintf("%s: string %q vs %q", path, a.s, b.s)
		}
	case 'a':
		if len(a.arr) != len(b.arr) {
			return fmt.Sprintf("%s: array length %d vs %d", path, len(a.arr), len(b.arr))
		}
		for i := range a.arr {
			if d := jdiff(fmt.Sprintf("%s[%d]", path, i), a.arr[i], b.arr[i]); d != "" {
				return d
			}
		}
	case 'o':
		if len(a.obj) != len(b.obj) {
			return fmt.Sprintf("%s: member sets differ: %v vs %v", path, jkeys(a), jkeys(b))
		}
		for _, k := range jkeys(a) {
			bv, ok := b.obj[k]
			if !ok {
				return fmt.Sprintf("%s: member %q missing", path, k)
			}
			if d := jdiff(path+"."+k, a.obj[k], bv); d != "" {
				return d
			}
		}
	}
	return ""
}

func jkeys(n *jnode) []string {
	ks := make([]string, 0, len(n.obj))
	for k := range n.obj {
		ks = append(ks, k)
	}
	sort.Strings(ks)
	return ks
}

// JSONDiff returns "" when a and b are JSON-equal, else a description of the first difference.
func JSONDiff(a, b []byte) string {
	ta, err := parseJSONTree(a)
	if err != nil {
		return fmt.Sprintf("left side is not valid JSON: %v (%s)", err, Preview(a))
	}
	tb, err := parseJSONTree(b)
	if err != nil {
		return fmt.Sprintf("right side is not valid JSON: %v (%s)", err, Preview(b))
	}
	return jdiff("$", ta, tb)
}

// JSONEqual reports JSON equality.
func JSONEqual(a, b []byte) bool { return JSONDiff(a, b) == "" }

// hasHardJSON reports whether the text contains a number not exactly representable as
// float64-round-trip literal, or a non-ASCII / escaped string (the C03 non-triviality rule).
func hasHardJSON(s string) bool {
	if strings.Contains(s, `\`) || !isASCII(s) {
		return true
	}
	for _, n := range []string{"9007199254740993", "12345678901234567890123", "1e400", "18446744073709551616", "0.10", "1E+2", "-0"} {
		if strings.Contains(s, n) {
			return true
		}
	}
	return false
}

func isASCII(s string) bool {
	for i := 0; i < len(s); i++ {
		if s[i] >= utf8.RuneSelf {
			return false
		}
	}
	return true
}
