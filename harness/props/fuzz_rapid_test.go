package props

// Coverage-guided variants of the rapid properties (thorough tier only): the native fuzzer mutates
// the byte string that rapid.MakeFuzz turns into the generator's draws, so the same generator and
// the same oracle are driven by coverage feedback from the library instead of by rapid's own
// random source. A failing input is reported like every other failure (the case is saved by
// SaveFailing in the worker; the byte string stays under testdata/fuzz of the run's work directory).

import (
	"testing"

	"pgregory.net/rapid"
)

// fuzzSeedBytes: a few deterministic pseudo-random byte strings so that the first generation of
// inputs already yields non-degenerate draws (all-zero bytes give the minimal case only).
func fuzzSeedBytes() [][]byte {
	var out [][]byte
	x := uint64(0x9E3779B97F4A7C15)
	for _, n := range []int{64, 256, 1024, 4096} {
		for k := 0; k < 4; k++ {
			b := make([]byte, n)
			for i := range b {
				x ^= x << 13
				x ^= x >> 7
				x ^= x << 17
				b[i] = byte(x >> 32)
			}
			out = append(out, b)
		}
	}
	return out
}

func RunFuzzRapid[C any](f *testing.F, p Prop[C], statsName string) {
	for _, b := range fuzzSeedBytes() {
		f.Add(b)
	}
	st := NewStats(statsName)
	f.Fuzz(rapid.MakeFuzz(func(rt *rapid.T) {
		c := p.Gen(rt)
		if p.Pending {
			SavePending(p.ID, p.Name, c)
		}
		err := Guard(func() error { return p.Check(c, st) })
		if p.Pending {
			ClearPending()
		}
		if err != nil {
			SaveFailing(p.ID, p.Name, c, err.Error())
			msg := err.Error()
			if len(msg) > 1500 {
				msg = msg[:1500] + "…"
			}
			rt.Fatalf("%s violated: %s", p.ID, msg)
		}
	}))
}

func FuzzC01Rapid(f *testing.F) { p := propC01; p.Gen = genC01; RunFuzzRapid(f, p, "FuzzC01Rapid") }
func FuzzC04Rapid(f *testing.F) { p := propC04; p.Gen = genC04; RunFuzzRapid(f, p, "FuzzC04Rapid") }
func FuzzC05Rapid(f *testing.F) { p := propC05; p.Gen = genC05; RunFuzzRapid(f, p, "FuzzC05Rapid") }
func FuzzC13Rapid(f *testing.F) { p := propC13; p.Gen = genC13; RunFuzzRapid(f, p, "FuzzC13Rapid") }
