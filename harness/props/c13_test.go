package props

// C13 Introspection reports exactly what was registered.
//
// A generated history of register / duplicate-register / listen / register-while-listening /
// query / shutdown operations is interpreted against one real Service and a model (ordered name
// list + description map). Queries go through the client helpers GetInfo and
// GetInterfaceDescription. A second test drives the Resolver helpers against a scripted
// org.varlink.resolver interface.

import (
	"context"
	"encoding/json"
	"fmt"
	"os"
	"strings"
	"sync"
	"sync/atomic"
	"testing"
	"time"
	"unicode/utf8"

	"github.com/varlink/go/varlink"
	"pgregory.net/rapid"
)

// C13Op is one step of the history.
type C13Op struct {
	Op   string `json:"op"` // register | dup | listen | shutdown | query
	Name string `json:"name,omitempty"`
	Desc string `json:"desc,omitempty"`
	Unix bool   `json:"unix,omitempty"` // listen: abstract unix socket via Listen() instead of the fake listener via DoListen()
}

// C13Case is a service identity plus a history.
type C13Case struct {
	Ident [4]string `json:"ident"`
	Ops   []C13Op   `json:"ops"`
}

func genUTF8(t *rapid.T, label string, max int) string {
	switch rapid.IntRange(0, 5).Draw(t, label+"k") {
	case 0:
		return ""
	case 1:
		return rapid.SampledFrom([]string{"x", "interface a.b\nmethod F() -> ()\n", "é😀\u0000\"\\</script>&", " ", "\n", "null", "{}", "\ufeffbom", "a\u2028b\u2029c"}).Draw(t, label+"c")
	default:
		s := string(genRunes(t, label, max))
		if !utf8.ValidString(s) {
			return "valid"
		}
		return s
	}
}

func genC13(t *rapid.T) C13Case {
	var c C13Case
	for i := range c.Ident {
		c.Ident[i] = genUTF8(t, fmt.Sprintf("ident%d", i), 20)
	}
	n := rapid.IntRange(3, 25).Draw(t, "nops")
	var names []string
	fresh := 0
	for i := 0; i < n; i++ {
		switch rapid.IntRange(0, 9).Draw(t, "op") {
		case 0, 1, 2, 3:
			var name string
			if rapid.IntRange(0, 3).Draw(t, "odd") == 0 {
				name = genIfaceName(t, names)
			} else {
				fresh++
				name = fmt.Sprintf("org.example.i%d", fresh)
			}
			desc := genUTF8(t, "desc", 40)
			if rapid.IntRange(0, 19).Draw(t, "bigdesc") == 0 {
				desc = strings.Repeat("# é😀 long description line\n", rapid.IntRange(100, 2500).Draw(t, "biglen"))
			}
			names = append(names, name)
			c.Ops = append(c.Ops, C13Op{Op: "register", Name: name, Desc: desc})
		case 4:
			nm := "org.varlink.service"
			if len(names) > 0 && rapid.Bool().Draw(t, "dupown") {
				nm = rapid.SampledFrom(names).Draw(t, "dupname")
			}
			c.Ops = append(c.Ops, C13Op{Op: "dup", Name: nm, Desc: genUTF8(t, "dupdesc", 10)})
		case 5, 6:
			if rapid.IntRange(0, 9).Draw(t, "race") == 0 {
				fresh++
				name := fmt.Sprintf("org.example.race%d", fresh)
				names = append(names, name)
				c.Ops = append(c.Ops, C13Op{Op: "dup-race", Name: name, Desc: genUTF8(t, "racedesc", 20)})
				continue
			}
			if rapid.IntRange(0, 3).Draw(t, "badlisten") == 0 {
				c.Ops = append(c.Ops, C13Op{Op: "bad-listen", Name: rapid.SampledFrom([]string{"no-protocol", "bogus:x", "unix:", "", ":"}).Draw(t, "badaddr")})
			}
			c.Ops = append(c.Ops, C13Op{Op: "listen", Unix: rapid.IntRange(0, 3).Draw(t, "unix") == 0})
		case 7:
			if rapid.IntRange(0, 2).Draw(t, "relisten") == 0 {
				fresh++
				name := fmt.Sprintf("org.example.late%d", fresh)
				c.Ops = append(c.Ops, C13Op{Op: "listen", Unix: true}, C13Op{Op: "relisten"}, C13Op{Op: "register", Name: name, Desc: "d"}, C13Op{Op: "query"})
				names = append(names, name)
				continue
			}
			c.Ops = append(c.Ops, C13Op{Op: "shutdown"})
		default:
			c.Ops = append(c.Ops, C13Op{Op: "query"})
		}
	}
	c.Ops = append(c.Ops, C13Op{Op: "listen"}, C13Op{Op: "query"})
	return c
}

var c13Counter int64

// slowDescIface is a dispatcher whose description getter can be made to block (to overlap two registrations).
type slowDescIface struct {
	name, desc string
	wait       func()
}

func (s *slowDescIface) VarlinkGetName() string { return s.name }
func (s *slowDescIface) VarlinkGetDescription() string {
	if s.wait != nil {
		s.wait()
	}
	return s.desc
}
func (s *slowDescIface) VarlinkDispatch(ctx context.Context, c varlink.Call, m string) error {
	return c.ReplyMethodNotFound(ctx, m)
}

type c13Run struct {
	svc       *varlink.Service
	names     []string
	descs     map[string]string
	builtin   string
	haveBI    bool
	fake      *FakeListener
	addr      string
	done      chan error
	cancel    context.CancelFunc
	listening bool
}

func (r *c13Run) dial(bound time.Duration) (*varlink.Connection, error) {
	if r.fake != nil {
		return varlink.VerifNewConnection(sockLikePipe{r.fake.Connect()}), nil
	}
	ctx, cancel := context.WithTimeout(context.Background(), bound)
	defer cancel()
	var last error
	for dl := time.Now().Add(bound); time.Now().Before(dl); {
		c, err := varlink.NewConnection(ctx, r.addr)
		if err == nil {
			return c, nil
		}
		last = err
		time.Sleep(time.Millisecond)
	}
	return nil, fmt.Errorf("cannot connect to the listening service at %s: %v", r.addr, last)
}

func (r *c13Run) query(bound time.Duration, c C13Case) error {
	conn, err := r.dial(bound)
	if err != nil {
		return err
	}
	defer conn.Close()
	ctx, cancel := context.WithTimeout(context.Background(), bound)
	defer cancel()
	v, p, ver, u := "\x01unset", "\x01unset", "\x01unset", "\x01unset"
	ifs := []string{"\x01unset"}
	if err := conn.GetInfo(ctx, &v, &p, &ver, &u, &ifs); err != nil {
		return fmt.Errorf("client GetInfo failed: %v", err)
	}
	got := [4]string{v, p, ver, u}
	if got != c.Ident {
		return fmt.Errorf("GetInfo identity (vendor, product, version, url) = %q, the service was created with %q", got, c.Ident)
	}
	if len(ifs) != len(r.names) {
		return fmt.Errorf("GetInfo interfaces = %q, registered in this order: %q", ifs, r.names)
	}
	for i := range ifs {
		if ifs[i] != r.names[i] {
			return fmt.Errorf("GetInfo interfaces = %q, registered in this order: %q", ifs, r.names)
		}
	}
	// nil out-pointers must be tolerated
	if err := conn.GetInfo(ctx, nil, nil, nil, nil, nil); err != nil {
		return fmt.Errorf("client GetInfo with nil out-parameters failed: %v", err)
	}
	for _, n := range r.names {
		d, err := conn.GetInterfaceDescription(ctx, n)
		if err != nil {
			return fmt.Errorf("GetInterfaceDescription(%q) failed for a listed interface: %v", n, err)
		}
		if n == "org.varlink.service" {
			if !r.haveBI {
				r.builtin, r.haveBI = d, true
				if !strings.Contains(d, "interface org.varlink.service") {
					return fmt.Errorf("the built-in interface's description does not describe org.varlink.service: %q", Preview([]byte(d)))
				}
			} else if d != r.builtin {
				return fmt.Errorf("the built-in interface's description changed between queries")
			}
			continue
		}
		if d != r.descs[n] {
			return fmt.Errorf("GetInterfaceDescription(%q) = %s, registered text %s", n, Preview([]byte(d)), Preview([]byte(r.descs[n])))
		}
	}
	unlisted := []string{"", "no.such.interface", "org.varlink.servic", "org.varlink.service ", "ORG.VARLINK.SERVICE"}
	for _, n := range r.names {
		unlisted = append(unlisted, n+"x", strings.ToUpper(n)+"!")
	}
	for _, op := range c.Ops {
		if op.Op == "register" {
			unlisted = append(unlisted, op.Name) // names registered later or refused
		}
	}
	for _, n := range unlisted {
		if _, listed := r.descs[n]; listed || n == "org.varlink.service" {
			continue
		}
		_, err := conn.GetInterfaceDescription(ctx, n)
		ip, ok := err.(*varlink.InvalidParameter)
		if !ok {
			return fmt.Errorf("GetInterfaceDescription(%q) for an interface that is not registered returned %v (%T), want *varlink.InvalidParameter", n, err, err)
		}
		if ip.Parameter != "interface" {
			return fmt.Errorf("GetInterfaceDescription(%q): InvalidParameter carries %q, want \"interface\"", n, ip.Parameter)
		}
	}
	return nil
}

func (r *c13Run) shutdown(bound time.Duration) error {
	if !r.listening {
		return nil
	}
	if r.fake != nil {
		dl := time.Now().Add(bound)
		for !r.fake.Blocked() && time.Now().Before(dl) {
			time.Sleep(50 * time.Microsecond)
		}
	}
	dl := time.Now().Add(bound)
	for activeConns(r.svc) != 0 && time.Now().Before(dl) {
		time.Sleep(100 * time.Microsecond)
	}
	r.svc.Shutdown()
	select {
	case <-r.done:
	case <-time.After(bound):
		return fmt.Errorf("the serving call did not return within %v after Shutdown", bound)
	}
	r.cancel()
	r.listening = false
	r.fake = nil
	return nil
}

func execC13(c C13Case, bound time.Duration) (facts map[string]int, err error) {
	bound *= WatchdogScale()
	facts = map[string]int{}
	svc, nerr := varlink.NewService(c.Ident[0], c.Ident[1], c.Ident[2], c.Ident[3])
	if nerr != nil {
		return facts, fmt.Errorf("NewService failed: %v", nerr)
	}
	r := &c13Run{svc: svc, names: []string{"org.varlink.service"}, descs: map[string]string{}}
	defer func() {
		if serr := r.shutdown(bound); serr != nil && err == nil {
			err = serr
		}
	}()
	for i, op := range c.Ops {
		pre := fmt.Sprintf("op %d (%s %q): ", i, op.Op, op.Name)
		switch op.Op {
		case "register", "dup":
			_, known := r.descs[op.Name]
			known = known || op.Name == "org.varlink.service"
			si := &ScriptIface{Name: op.Name, Desc: op.Desc, Log: &InvLog{}}
			rerr := svc.RegisterInterface(si)
			if i%2 == 0 {
				// the application changes its text after the registration call has returned; what was registered stays
				si.EditDescription("# edited after registration\n" + op.Desc + "x")
				facts["description-edited-after-registration"]++
			}
			switch {
			case known:
				facts["refused-duplicate"]++
				if rerr == nil {
					return facts, fmt.Errorf("%sregistering a name twice was accepted", pre)
				}
			case r.listening:
				facts["refused-while-listening"]++
				if rerr == nil {
					return facts, fmt.Errorf("%sregistering while the service is listening was accepted", pre)
				}
			default:
				if rerr != nil {
					return facts, fmt.Errorf("%sregistration of a fresh name on a service that is not listening was refused: %v", pre, rerr)
				}
				facts["registered"]++
				r.names = append(r.names, op.Name)
				r.descs[op.Name] = op.Desc
			}
		case "dup-race":
			// two registrations of the same fresh name overlap in time (the description getter of the first
			// blocks until the second is in flight, or 30 ms): exactly one may succeed while not listening, none while listening
			if _, known := r.descs[op.Name]; known || op.Name == "org.varlink.service" {
				continue
			}
			gate := make(chan struct{})
			var once sync.Once
			mk := func() *slowDescIface {
				return &slowDescIface{name: op.Name, desc: op.Desc, wait: func() {
					once.Do(func() {})
					select {
					case <-gate:
					case <-time.After(30 * time.Millisecond):
					}
				}}
			}
			errs := make(chan error, 2)
			go func() { errs <- svc.RegisterInterface(mk()) }()
			go func() { time.Sleep(2 * time.Millisecond); errs <- svc.RegisterInterface(mk()) }()
			e1, e2 := <-errs, <-errs
			close(gate)
			ok := 0
			if e1 == nil {
				ok++
			}
			if e2 == nil {
				ok++
			}
			facts["dup-race"]++
			switch {
			case r.listening && ok != 0:
				return facts, fmt.Errorf("%sregistering while the service is listening was accepted (%d of two overlapping attempts)", pre, ok)
			case !r.listening && ok != 1:
				return facts, fmt.Errorf("%stwo overlapping registrations of the same fresh name: %d succeeded, want exactly one (errors: %v / %v)", pre, ok, e1, e2)
			}
			if ok == 1 {
				facts["registered"]++
				facts["refused-duplicate"]++
				r.names = append(r.names, op.Name)
				r.descs[op.Name] = op.Desc
			}
		case "bad-listen":
			// a serving attempt that is refused (address without protocol, unknown protocol, empty path): the service is
			// not listening afterwards, so registrations are accepted as before, and a later cycle is a full cycle
			if r.listening {
				continue
			}
			addr := op.Name
			if berr := GuardBounded(fmt.Sprintf("Listen(%q)", addr), bound, func() error {
				if e := svc.Listen(context.Background(), addr, 0); e == nil {
					return fmt.Errorf("%sListen(%q) returned nil", pre, addr)
				}
				return nil
			}); berr != nil {
				return facts, berr
			}
			facts["refused-serving-attempt"]++
		case "listen":
			if r.listening {
				continue
			}
			ctx, cancel := context.WithCancel(context.Background())
			r.cancel = cancel
			r.done = make(chan error, 1)
			if op.Unix {
				r.addr = fmt.Sprintf("unix:@verif-c13-%d-%d", os.Getpid(), atomic.AddInt64(&c13Counter, 1))
				go func(addr string, d chan error) { d <- svc.Listen(ctx, addr, 0) }(r.addr, r.done)
				// wait until it answers
				conn, derr := r.dial(bound)
				if derr != nil {
					return facts, fmt.Errorf("%s%v", pre, derr)
				}
				cctx, ccancel := context.WithTimeout(context.Background(), bound)
				gerr := conn.GetInfo(cctx, nil, nil, nil, nil, nil)
				ccancel()
				conn.Close()
				if gerr != nil {
					return facts, fmt.Errorf("%sfirst GetInfo after Listen failed: %v", pre, gerr)
				}
			} else {
				r.fake = NewFakeListener()
				svc.VerifSetListener(r.fake)
				go func(d chan error) { d <- svc.DoListen(ctx, 0) }(r.done)
				dl := time.Now().Add(bound)
				for !r.fake.Blocked() && time.Now().Before(dl) {
					time.Sleep(50 * time.Microsecond)
				}
				if !r.fake.Blocked() {
					return facts, fmt.Errorf("%sDoListen did not reach Accept within %v", pre, bound)
				}
			}
			r.listening = true
			facts["listen"]++
		case "relisten":
			// the serving call is shut down while one of its clients stays connected, the object is served again on a new
			// address, and only then the old client leaves and the old call returns: the service is listening throughout
			// the second cycle, whatever the first one's end does
			if !r.listening || r.fake != nil {
				continue
			}
			old, derr := r.dial(bound)
			if derr != nil {
				return facts, fmt.Errorf("%s%v", pre, derr)
			}
			cctx, ccancel := context.WithTimeout(context.Background(), bound)
			gerr := old.GetInfo(cctx, nil, nil, nil, nil, nil)
			ccancel()
			if gerr != nil {
				old.Close()
				return facts, fmt.Errorf("%sGetInfo on a fresh connection failed: %v", pre, gerr)
			}
			svc.Shutdown()
			for dl := time.Now().Add(bound / 2); time.Now().Before(dl); {
				if l, _ := svc.GetListener(); l == nil {
					break
				}
				time.Sleep(100 * time.Microsecond)
			}
			oldDone, oldCancel := r.done, r.cancel
			ctx, cancel := context.WithCancel(context.Background())
			r.cancel = cancel
			r.done = make(chan error, 1)
			r.addr = fmt.Sprintf("unix:@verif-c13-%d-%d", os.Getpid(), atomic.AddInt64(&c13Counter, 1))
			go func(addr string, d chan error) { d <- svc.Listen(ctx, addr, 0) }(r.addr, r.done)
			conn, derr2 := r.dial(bound)
			if derr2 != nil {
				old.Close()
				return facts, fmt.Errorf("%sserving again while the previous call drains: %v", pre, derr2)
			}
			cctx, ccancel = context.WithTimeout(context.Background(), bound)
			gerr = conn.GetInfo(cctx, nil, nil, nil, nil, nil)
			ccancel()
			conn.Close()
			if gerr != nil {
				old.Close()
				return facts, fmt.Errorf("%sfirst GetInfo of the second cycle failed: %v", pre, gerr)
			}
			old.Close()
			select {
			case <-oldDone:
			case <-time.After(bound):
				return facts, fmt.Errorf("%sthe previous serving call did not return within %v after its last client left", pre, bound)
			}
			oldCancel()
			facts["second-cycle-overlaps-first-drain"]++
		case "shutdown":
			if r.listening {
				facts["shutdown"]++
			}
			if serr := r.shutdown(bound); serr != nil {
				return facts, fmt.Errorf("%s%v", pre, serr)
			}
		case "query":
			if !r.listening {
				continue
			}
			facts["query"]++
			if qerr := r.query(bound, c); qerr != nil {
				return facts, fmt.Errorf("%s%v", pre, qerr)
			}
		}
	}
	return facts, nil
}

func checkC13(c C13Case, st *Stats) error {
	facts, err := execC13(c, protoBound)
	nt := facts["registered"] >= 3 && facts["refused-duplicate"]+facts["refused-while-listening"] >= 1 && facts["shutdown"] >= 1 && facts["query"] >= 1
	var labels []string
	for _, k := range []string{"refused-duplicate", "refused-while-listening", "shutdown", "query"} {
		if facts[k] > 0 {
			labels = append(labels, "has:"+k)
		}
	}
	st.Count("queries", int64(facts["query"]))
	st.Case(HashOf(c), nt, func() interface{} { return c }, labels...)
	return err
}

var propC13 = Register(Prop[C13Case]{ID: "C13", Name: "C13", Pending: true, Check: checkC13})

func TestC13Rapid(t *testing.T) {
	p := propC13
	p.Gen = genC13
	RunRapid(t, p, "C13Rapid")
}

// ---------------------------------------------------------------------------
// resolver helpers

// C13ResCase: what a scripted org.varlink.resolver answers, and what the client asks.
type C13ResCase struct {
	Ident   [4]string         `json:"ident"`
	Ifaces  []string          `json:"ifaces"`
	Table   map[string]string `json:"table"`
	Queries []string          `json:"queries"`
	// InfoFails: the resolver answers GetInfo with an error; the helper must report it, not zero values
	InfoFails bool `json:"info_fails,omitempty"`
}

type resolverIface struct{ c C13ResCase }

func (r *resolverIface) VarlinkGetName() string { return "org.varlink.resolver" }
func (r *resolverIface) VarlinkGetDescription() string {
	return "interface org.varlink.resolver\nmethod Resolve(interface: string) -> (address: string)\n"
}
func (r *resolverIface) VarlinkDispatch(ctx context.Context, c varlink.Call, m string) error {
	switch m {
	case "GetInfo":
		if r.c.InfoFails {
			return c.ReplyError(ctx, "org.varlink.resolver.Unavailable", map[string]string{"why": "scripted"})
		}
		return c.Reply(ctx, map[string]interface{}{"vendor": r.c.Ident[0], "product": r.c.Ident[1], "version": r.c.Ident[2], "url": r.c.Ident[3], "interfaces": r.c.Ifaces})
	case "Resolve":
		var in struct {
			Interface string `json:"interface"`
		}
		if err := c.GetParameters(&in); err != nil {
			return c.ReplyInvalidParameter(ctx, "parameters")
		}
		a, ok := r.c.Table[in.Interface]
		if !ok {
			return c.ReplyError(ctx, "org.varlink.resolver.InterfaceNotFound", map[string]string{"interface": in.Interface})
		}
		return c.Reply(ctx, map[string]string{"address": a})
	}
	return c.ReplyMethodNotFound(ctx, m)
}

func genC13Res(t *rapid.T) C13ResCase {
	var c C13ResCase
	for i := range c.Ident {
		c.Ident[i] = genUTF8(t, fmt.Sprintf("rident%d", i), 16)
	}
	n := rapid.IntRange(0, 6).Draw(t, "nifs")
	c.Table = map[string]string{}
	for i := 0; i < n; i++ {
		name := genIfaceName(t, c.Ifaces)
		if _, dup := c.Table[name]; dup || name == "org.varlink.resolver" {
			continue
		}
		c.Ifaces = append(c.Ifaces, name)
		c.Table[name] = rapid.SampledFrom([]string{"unix:/run/x", "unix:@abstract;mode=0600", "tcp:127.0.0.1:12345", "", "é😀", "unix:/a b"}).Draw(t, "addr") + fmt.Sprint(i)
	}
	if c.Ifaces == nil {
		c.Ifaces = []string{}
	}
	for _, k := range c.Ifaces {
		c.Queries = append(c.Queries, k)
	}
	c.Queries = append(c.Queries, "org.varlink.resolver", "not.registered.anywhere")
	c.InfoFails = rapid.IntRange(0, 9).Draw(t, "infofails") == 3
	return c
}

func checkC13Res(c C13ResCase, st *Stats) error {
	bound := protoBound * WatchdogScale()
	svc, err := varlink.NewService("v", "p", "1", "u")
	if err != nil {
		return fmt.Errorf("HARNESS: %v", err)
	}
	if err := svc.RegisterInterface(&resolverIface{c}); err != nil {
		return fmt.Errorf("HARNESS: %v", err)
	}
	addr := fmt.Sprintf("unix:@verif-c13r-%d-%d", os.Getpid(), atomic.AddInt64(&c13Counter, 1))
	ctx, cancel := context.WithCancel(context.Background())
	defer cancel()
	done := make(chan error, 1)
	go func() { done <- svc.Listen(ctx, addr, 0) }()
	cctx, ccancel := context.WithTimeout(context.Background(), bound)
	defer ccancel()
	var res *varlink.Resolver
	for dl := time.Now().Add(bound); time.Now().Before(dl); {
		res, err = varlink.NewResolver(cctx, addr)
		if err == nil {
			break
		}
		time.Sleep(time.Millisecond)
	}
	if err != nil {
		return fmt.Errorf("NewResolver(%q) failed: %v", addr, err)
	}
	verr := func() error {
		v, p, ver, u := "\x01", "\x01", "\x01", "\x01"
		var ifs []string
		if c.InfoFails {
			err := res.GetInfo(cctx, &v, &p, &ver, &u, &ifs)
			ve, is := err.(*varlink.Error)
			if !is || ve.Name != "org.varlink.resolver.Unavailable" {
				return fmt.Errorf("Resolver.GetInfo returned %v (%T) although the resolver answered with the error org.varlink.resolver.Unavailable", err, err)
			}
			return nil
		}
		if err := res.GetInfo(cctx, &v, &p, &ver, &u, &ifs); err != nil {
			return fmt.Errorf("Resolver.GetInfo failed: %v", err)
		}
		if got := [4]string{v, p, ver, u}; got != c.Ident {
			return fmt.Errorf("Resolver.GetInfo identity %q, the resolver answered %q", got, c.Ident)
		}
		gb, _ := json.Marshal(ifs)
		wb, _ := json.Marshal(c.Ifaces)
		if len(ifs) != len(c.Ifaces) || (len(ifs) > 0 && string(gb) != string(wb)) {
			return fmt.Errorf("Resolver.GetInfo interfaces %s, the resolver answered %s", gb, wb)
		}
		if err := res.GetInfo(cctx, nil, nil, nil, nil, nil); err != nil {
			return fmt.Errorf("Resolver.GetInfo with nil out-parameters failed: %v", err)
		}
		for _, q := range c.Queries {
			a, err := res.Resolve(cctx, q)
			switch {
			case q == "org.varlink.resolver":
				if err != nil || a != addr {
					return fmt.Errorf("Resolve(org.varlink.resolver) = %q, %v; want the resolver's own address %q", a, err, addr)
				}
			default:
				want, ok := c.Table[q]
				if !ok {
					ve, is := err.(*varlink.Error)
					if !is || ve.Name != "org.varlink.resolver.InterfaceNotFound" {
						return fmt.Errorf("Resolve(%q) for an unknown interface = %q, %v (%T); want the resolver's error", q, a, err, err)
					}
					continue
				}
				if err != nil || a != want {
					return fmt.Errorf("Resolve(%q) = %q, %v; the resolver answered %q", q, a, err, want)
				}
			}
		}
		return nil
	}()
	res.Close()
	dl := time.Now().Add(bound)
	for activeConns(svc) != 0 && time.Now().Before(dl) {
		time.Sleep(100 * time.Microsecond)
	}
	svc.Shutdown()
	select {
	case <-done:
	case <-time.After(bound):
		if verr == nil {
			verr = fmt.Errorf("Listen did not return after Shutdown")
		}
	}
	st.Case(HashOf(c), len(c.Ifaces) >= 2, func() interface{} { return c }, "resolver")
	return verr
}

var propC13Res = Register(Prop[C13ResCase]{ID: "C13", Name: "C13res", Pending: true, Check: checkC13Res})

func TestC13Resolver(t *testing.T) {
	p := propC13Res
	p.Gen = genC13Res
	RunRapid(t, p, "C13Resolver")
}
