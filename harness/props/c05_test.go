package props

// C05 IDL parser: grammar-conformant descriptions parse to the tree they denote.

import (
	"fmt"
	"strings"
	"testing"

	"github.com/varlink/go/varlink/idl"
	"pgregory.net/rapid"
)

// TreeCase is a tree and one textual rendering of it.
type TreeCase struct {
	Tree   Iface  `json:"tree"`
	Text   string `json:"text"`
	Layout string `json:"layout"`
}

func countNodes(t *Ty) (nodes int, nested bool) {
	if t == nil {
		return 0, false
	}
	nodes = 1
	if t.Elem != nil {
		n, _ := countNodes(t.Elem)
		nodes += n
		nested = true
	}
	for _, f := range t.Fields {
		if f.T != nil {
			n, ne := countNodes(f.T)
			nodes += n
			if ne || f.T.K == "struct" || f.T.K == "enum" {
				nested = true
			}
		}
	}
	return
}

func c05Nontrivial(c *TreeCase) bool {
	if len(c.Tree.Members) < 2 {
		return false
	}
	nested := false
	for _, m := range c.Tree.Members {
		for _, t := range []*Ty{m.T, m.In, m.Out} {
			if _, ne := countNodes(t); ne {
				nested = true
			}
		}
	}
	if !nested {
		return false
	}
	return strings.ContainsAny(c.Text, "#\t\r") || strings.Contains(c.Text, "\n\n")
}

func sameDoc(want []string, got []string) bool {
	// a doc block that is a single bare "#" has the doc string "" (= no lines)
	if len(want) == 1 && want[0] == "" && len(got) == 0 {
		return true
	}
	if len(want) != len(got) {
		return false
	}
	for i := range want {
		if strings.Trim(want[i], " \t\r") != got[i] {
			return false
		}
	}
	return true
}

func checkDoc(what, mode string, want, got []string) error {
	switch mode {
	case "none":
		if len(got) != 0 {
			return fmt.Errorf("%s: no comment precedes it, but Doc = %q", what, got)
		}
	case "block":
		if !sameDoc(want, got) {
			return fmt.Errorf("%s: doc block %q directly above it, but Doc lines = %q", what, want, got)
		}
	case "blocktail":
		// the block sits directly under a line that ends in a remark: whether the remark counts as part of the block is
		// left open, but the block itself is this member's documentation
		if len(want) == 1 && want[0] == "" {
			return nil
		}
		if len(got) < len(want) || !sameDoc(want, got[len(got)-len(want):]) {
			return fmt.Errorf("%s: doc block %q directly above it (under a line ending in a remark), but Doc lines = %q", what, want, got)
		}
	}
	return nil
}

func checkC05(c TreeCase, st *Stats) error {
	st.Case(HashOf(c.Text), c05Nontrivial(&c), func() interface{} { return map[string]interface{}{"layout": c.Layout, "text": c.Text} }, "layout:"+c.Layout)
	tree, err := idl.New(c.Text)
	if err != nil {
		return fmt.Errorf("grammar-conformant description rejected: %v\n--- text (%s layout) ---\n%s\n--- compact form ---\n%s", err, c.Layout, c.Text, PrintCompact(&c.Tree))
	}
	if tree == nil {
		return fmt.Errorf("idl.New returned nil, nil")
	}
	got, err := FromParser(tree)
	if err != nil {
		return fmt.Errorf("malformed tree: %v\n--- text ---\n%s", err, c.Text)
	}
	if d := DiffIface(&c.Tree, got); d != "" {
		return fmt.Errorf("tree differs from the text: %s\n--- text (%s layout) ---\n%s", d, c.Layout, c.Text)
	}
	if tree.Description != c.Text {
		return fmt.Errorf("Description not retained verbatim: %q vs input %q", tree.Description, c.Text)
	}
	if err := checkDoc("interface", c.Tree.DocMode, c.Tree.Doc, got.Doc); err != nil {
		return fmt.Errorf("%v\n--- text ---\n%s", err, c.Text)
	}
	for i, m := range c.Tree.Members {
		if err := checkDoc(m.Kind+" "+m.Name, m.DocMode, m.Doc, got.Members[i].Doc); err != nil {
			return fmt.Errorf("%v\n--- text ---\n%s", err, c.Text)
		}
	}
	return nil
}

var propC05 = Register(Prop[TreeCase]{ID: "C05", Name: "C05", Check: checkC05})

// deepTy builds a type nested depth levels deep from the generated constructor choices.
func deepTy(t *rapid.T, depth int) *Ty {
	cur := tyBuiltin(rapid.SampledFrom(builtinKinds).Draw(t, "leaf"))
	for d := 0; d < depth; d++ {
		switch k := rapid.IntRange(0, 3).Draw(t, "wrap"); {
		case k == 0 && cur.K != "maybe":
			cur = &Ty{K: "maybe", Elem: cur}
		case k == 1:
			cur = &Ty{K: "array", Elem: cur}
		case k == 2:
			cur = &Ty{K: "map", Elem: cur}
		default:
			cur = &Ty{K: "struct", Fields: []Field{{Name: "f", T: cur}}}
		}
	}
	return cur
}

// genStressIface: shapes the ordinary generator reaches too rarely - very many members (with runs of
// parameterless errors) and very deep types.
func genStressIface(t *rapid.T) *Iface {
	i := &Iface{Name: genInterfaceName(t), DocMode: "none"}
	n := rapid.IntRange(20, 150).Draw(t, "nmembers")
	bare := rapid.IntRange(0, 100).Draw(t, "barepct")
	deepAt := rapid.IntRange(0, n-1).Draw(t, "deepAt")
	for k := 0; k < n; k++ {
		m := Member{Name: fmt.Sprintf("M%d", k), DocMode: "none"}
		switch {
		case k == deepAt:
			m.Kind = "method"
			m.In = &Ty{K: "struct", Fields: []Field{{Name: "deep", T: deepTy(t, rapid.IntRange(1, 120).Draw(t, "depth"))}}}
			m.Out = &Ty{K: "struct"}
		case rapid.IntRange(0, 99).Draw(t, "kind") < bare:
			m.Kind = "error"
		default:
			switch rapid.IntRange(0, 2).Draw(t, "mk") {
			case 0:
				m.Kind, m.T = "type", &Ty{K: "struct", Fields: []Field{{Name: "a", T: deepTy(t, rapid.IntRange(0, 6).Draw(t, "d"))}}}
			case 1:
				m.Kind, m.T = "error", &Ty{K: "struct", Fields: []Field{{Name: "why", T: tyBuiltin("string")}}}
			default:
				m.Kind = "method"
				m.In = &Ty{K: "struct", Fields: []Field{{Name: "a", T: deepTy(t, rapid.IntRange(0, 4).Draw(t, "d"))}}}
				m.Out = &Ty{K: "struct"}
			}
		}
		i.Members = append(i.Members, m)
	}
	return i
}

func genC05(t *rapid.T) TreeCase {
	max := 6
	big := rapid.IntRange(0, 19).Draw(t, "big")
	if big <= 1 {
		max = 30
	}
	var i *Iface
	if big == 2 {
		i = genStressIface(t)
	} else {
		i = GenIface(t, max)
	}
	eol := "\n"
	if rapid.IntRange(0, 4).Draw(t, "crlfdocs") == 0 {
		eol = "\r\n"
	}
	text := Render(i, RapidLayout{T: t, EOL: eol})
	lay := "random"
	if big == 2 {
		lay = "random(stress:many-members/deep-types)"
	}
	return TreeCase{Tree: *i, Text: text, Layout: lay}
}

func TestC05Rapid(t *testing.T) {
	p := propC05
	p.Gen = genC05
	RunRapid(t, p, "C05Rapid")
}

var fixedLayoutNames = []string{"compact", "spaced", "commented", "crlf", "emptycomment"}

// TestC05Enum: bounded-exhaustive trees × the fixed layouts × doc modes.
func TestC05Enum(t *testing.T) {
	shard, nshards := Shard()
	stride := 1
	if !Thorough() {
		stride = 53
	}
	trees := make(chan *Iface, 64)
	go func() {
		EnumIfaces(3, func(idx int, i *Iface) bool {
			if idx%stride == 0 && (idx/stride)%nshards == shard {
				trees <- i
			}
			return true
		})
		close(trees)
	}()
	var cur *Iface
	li := 0
	n := 0
	next := func() (TreeCase, bool) {
		for {
			if cur == nil || li >= int(NumFixedLayouts) {
				i, ok := <-trees
				if !ok {
					return TreeCase{}, false
				}
				cur = i
				li = 0
				n++
				// rotate the doc modes over the enumeration so each layout sees all of them
				modes := []string{"none", "block", "free"}
				cur.DocMode = modes[n%3]
				if cur.DocMode == "block" {
					cur.Doc = []string{"interface doc", "", "second paragraph"}
				}
				for k := range cur.Members {
					cur.Members[k].DocMode = modes[(n/3+k)%3]
					if cur.Members[k].DocMode == "block" {
						cur.Members[k].Doc = []string{fmt.Sprintf("doc of member %d", k), "line `two`"}
					}
				}
			}
			l := FixedLayout(li)
			li++
			return TreeCase{Tree: *cur, Text: Render(cur, l), Layout: fixedLayoutNames[l]}, true
		}
	}
	RunCases(t, propC05, "C05Enum", stride == 1 && nshards == 1, next)
}
