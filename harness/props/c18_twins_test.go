package props

// C18 under connection churn: several client connections of one process, each with a byte stream of its
// own, are opened, upgraded, read (frame reads and raw reads mixed) and closed - some of them closed twice, as
// `defer c.Close()` next to an explicit Close does - in a generated interleaving driven from one goroutine.
// Oracle: the cursor model of C18, per connection: "the byte stream of a connection is delivered exactly once
// and in order", whatever happened to other connections before or meanwhile. (Prompted by the seeded change
// C18-m: pooled read buffers handed back on every Close, so that two later connections share one reader.)
// The handler-side variant runs several upgraded calls on one service at the same time.

import (
	"bytes"
	"context"
	"encoding/json"
	"fmt"
	"net"
	"os"
	"sync"
	"sync/atomic"
	"testing"
	"time"

	"github.com/varlink/go/varlink"
	"pgregory.net/rapid"
)

// TwinConn is the program of one connection.
type TwinConn struct {
	Pings  int      `json:"pings"`            // plain calls (frame reads) before the upgrade
	Tail   Blob     `json:"tail"`             // what the peer sends right behind the upgrade reply, in the same segment
	Ops    []ReadOp `json:"ops"`              // consumer operations on the upgraded connection
	Closes int      `json:"closes"`           // 1 or 2 (or 3)
	NoUp   bool     `json:"no_up,omitempty"`  // never upgraded: opened, pinged, closed
	Early  bool     `json:"early,omitempty"`  // closed although the peer's stream has not been consumed
	Cut    int      `json:"cut,omitempty"`    // the peer's answer to the upgrade is cut after this many bytes (0: one segment)
	Wait   bool     `json:"wait,omitempty"`   // handler side only: unused on the client side
	Unused bool     `json:"unused,omitempty"` // opened and closed without any traffic
}

// C18TwinCase: Order is the interleaving - each entry names the connection whose program takes its next step.
type C18TwinCase struct {
	Side      string     `json:"side"` // "client" | "handler"
	Transport string     `json:"transport"`
	Conns     []TwinConn `json:"conns"`
	Order     []int      `json:"order"`
}

type twinState struct {
	cli    *varlink.Connection
	rwc    varlink.ReadWriterContext
	srvEnd chan struct{}
	step   int
	res    []OpResult
	pos    int
	closed int
	done   bool
}

// twinServer answers pings with a reply naming the connection and the upgrade with reply + tail in one go.
func twinServer(k int, tc TwinConn, srv net.Conn, bound time.Duration, done chan struct{}) {
	defer close(done)
	defer srv.Close()
	var buf []byte
	chunk := make([]byte, 65536)
	pings := 0
	upgraded := false
	for {
		n, err := srv.Read(chunk)
		buf = append(buf, chunk[:n]...)
		for !upgraded {
			i := bytes.IndexByte(buf, 0)
			if i < 0 {
				break
			}
			var wc wireCall
			json.Unmarshal(buf[:i], &wc)
			buf = buf[i+1:]
			srv.SetWriteDeadline(time.Now().Add(bound))
			if wc.Upgrade {
				upgraded = true
				out := append([]byte(`{"parameters":{"upgraded":true}}`), 0)
				out = append(out, tc.Tail...)
				go func() { // the reader above keeps running, so a raw write of the client never waits for this write
					if tc.Cut > 0 && tc.Cut < len(out) {
						if _, e := srv.Write(out[:tc.Cut]); e != nil {
							return
						}
						out = out[tc.Cut:]
					}
					srv.Write(out)
					if uc, ok := srv.(*net.UnixConn); ok {
						uc.CloseWrite()
					} else {
						srv.Close()
					}
				}()
			} else {
				srv.Write(append([]byte(fmt.Sprintf(`{"parameters":{"conn":%d,"n":%d}}`, k, pings)), 0))
				pings++
			}
		}
		if err != nil {
			return
		}
	}
}

func execC18TwinsClient(c C18TwinCase, bound time.Duration) (int, error) {
	states := make([]*twinState, len(c.Conns))
	var lis net.Listener
	var name string
	if c.Transport == "unix" {
		name = fmt.Sprintf("@verif-c18t-%d-%d", os.Getpid(), atomic.AddInt64(&c18Counter, 1))
		l, err := net.Listen("unix", name)
		if err != nil {
			return 0, fmt.Errorf("HARNESS: %v", err)
		}
		lis = l
		defer l.Close()
	}
	defer func() {
		for _, s := range states {
			if s != nil && s.cli != nil && s.closed == 0 {
				go s.cli.Close()
			}
		}
		for _, s := range states {
			if s != nil && s.srvEnd != nil {
				select {
				case <-s.srvEnd:
				case <-time.After(bound):
				}
			}
		}
	}()
	overlap := 0
	open := func(k int) error {
		s := &twinState{srvEnd: make(chan struct{})}
		states[k] = s
		var srv net.Conn
		if lis != nil {
			acc := make(chan net.Conn, 1)
			go func() { x, _ := lis.Accept(); acc <- x }()
			ctx, cancel := context.WithTimeout(context.Background(), bound)
			cc, err := varlink.NewConnection(ctx, "unix:"+name)
			cancel()
			if err != nil {
				return fmt.Errorf("connection %d: NewConnection failed: %v", k, err)
			}
			s.cli = cc
			select {
			case srv = <-acc:
			case <-time.After(bound):
				return fmt.Errorf("HARNESS: accept")
			}
			if srv == nil {
				return fmt.Errorf("HARNESS: accept failed")
			}
		} else {
			a, b := net.Pipe()
			s.cli, srv = varlink.VerifNewConnection(sockLikePipe{a}), b
		}
		go twinServer(k, c.Conns[k], srv, bound, s.srvEnd)
		return nil
	}
	// one step of connection k's program
	advance := func(k int) error {
		tc := c.Conns[k]
		s := states[k]
		if s == nil {
			if err := open(k); err != nil {
				return err
			}
			n := 0
			for _, o := range states {
				if o != nil && o.closed == 0 {
					n++
				}
			}
			if n > overlap {
				overlap = n
			}
			return nil
		}
		if s.done {
			return nil
		}
		ctx, cancel := context.WithTimeout(context.Background(), bound)
		defer cancel()
		closeStep := func() {
			s.cli.Close()
			s.closed++
			if s.closed >= tc.Closes {
				s.done = true
			}
		}
		if s.closed > 0 || tc.Unused {
			closeStep()
			return nil
		}
		if s.step < tc.Pings {
			var out struct{ Conn, N int }
			if err := s.cli.Call(ctx, "x.y.Ping", map[string]int{"conn": k}, &out); err != nil {
				return fmt.Errorf("connection %d: plain call %d failed: %v", k, s.step, err)
			}
			if out.Conn != k || out.N != s.step {
				return fmt.Errorf("connection %d: plain call %d was answered with the reply {conn:%d n:%d} - a reply that belongs to another connection or call", k, s.step, out.Conn, out.N)
			}
			s.step++
			return nil
		}
		if tc.NoUp {
			closeStep()
			return nil
		}
		if s.rwc == nil {
			recv, err := s.cli.Upgrade(ctx, "x.y.Up", map[string]int{"conn": k})
			if err != nil {
				return fmt.Errorf("connection %d: Upgrade failed: %v", k, err)
			}
			var out json.RawMessage
			_, rwc, err := recv(ctx, &out)
			if err != nil || rwc == nil {
				return fmt.Errorf("connection %d: the upgrade reply was not received: %v", k, err)
			}
			if d := JSONDiff([]byte(`{"upgraded":true}`), out); d != "" {
				return fmt.Errorf("connection %d: upgrade reply parameters: %s", k, d)
			}
			s.rwc = rwc
			return nil
		}
		i := s.step - tc.Pings
		if i < len(tc.Ops) {
			op := tc.Ops[i]
			var r OpResult
			if op.Kind == "readbytes" {
				b, e := s.rwc.ReadBytes(ctx, 0)
				r = OpResult{Data: b, Err: errStr(e)}
			} else {
				buf := make([]byte, op.N)
				n, e := s.rwc.Read(ctx, buf)
				r = OpResult{Data: buf[:n], Err: errStr(e)}
			}
			if isTimeoutStr(r.Err) {
				return fmt.Errorf("connection %d: consumer op %d (%s) did not return within %v although the peer had sent its whole stream and closed", k, i, op.Kind, bound)
			}
			s.res = append(s.res, r)
			s.step++
			// judge at once, so that the message names the first wrong read
			if d, _ := checkReadsPrefix(tc.Tail, tc.Ops, s.res); d != "" {
				return fmt.Errorf("connection %d (of %d, %d open at this moment): %s", k, len(c.Conns), openCount(states), d)
			}
			return nil
		}
		if !tc.Early && i == len(tc.Ops) {
			var drain OpResult
			buf := make([]byte, 4096)
			for {
				n, e := s.rwc.Read(ctx, buf)
				drain.Data = append(drain.Data, buf[:n]...)
				if e != nil {
					if isTimeoutErr(e) {
						return fmt.Errorf("connection %d: draining hung for %v after %d bytes", k, bound, len(drain.Data))
					}
					break
				}
				if n == 0 {
					return fmt.Errorf("connection %d: Read returned 0 bytes and no error", k)
				}
			}
			s.res = append(s.res, drain)
			s.step++
			if d, _ := checkReads(tc.Tail, tc.Ops, s.res); d != "" {
				return fmt.Errorf("connection %d (of %d, %d open at this moment): %s", k, len(c.Conns), openCount(states), d)
			}
			return nil
		}
		closeStep()
		return nil
	}
	step := func(k int) error {
		// a read that waits on another connection's socket is not woken by this connection's deadline: bound the step itself
		return GuardBounded(fmt.Sprintf("connection %d (of %d, %d open): a step of its program (call, upgrade, read or close under a context with a deadline)", k, len(c.Conns), openCount(states)), 2*protoBound, func() error { return advance(k) })
	}
	for _, k := range c.Order {
		if err := step(k); err != nil {
			return overlap, err
		}
	}
	// run every program to its end, round robin
	for progress := true; progress; {
		progress = false
		for k := range c.Conns {
			if states[k] == nil || !states[k].done {
				progress = true
				if err := step(k); err != nil {
					return overlap, err
				}
			}
		}
	}
	return overlap, nil
}

func openCount(states []*twinState) int {
	n := 0
	for _, s := range states {
		if s != nil && s.closed == 0 {
			n++
		}
	}
	return n
}

func isTimeoutStr(s string) bool {
	return s != "" && (bytes.Contains([]byte(s), []byte("deadline exceeded")) || bytes.Contains([]byte(s), []byte("i/o timeout")))
}

// checkReadsPrefix judges the results so far (no drain yet).
func checkReadsPrefix(tail []byte, ops []ReadOp, res []OpResult) (string, bool) {
	n := len(res)
	if n > len(ops) {
		n = len(ops)
	}
	// reuse checkReads by pretending the stream ends where the consumer stands: compute the cursor first
	pos := 0
	for i := 0; i < n; i++ {
		pos += len(res[i].Data)
	}
	if pos > len(tail) {
		return fmt.Sprintf("the consumer received %d bytes, the peer sent only %d", pos, len(tail)), false
	}
	tmp := append(append([]OpResult(nil), res[:n]...), OpResult{Data: tail[pos:]})
	return checkReads(tail, ops[:n], tmp)
}

// handler side: every connection's upgrade call runs its script on one service at the same time
func execC18TwinsHandler(c C18TwinCase, bound time.Duration) (int, error) {
	tr := "pipe"
	if c.Transport == "unix" {
		tr = "unixabs"
	}
	env, err := startE2E([]string{"x.y"}, tr, true)
	if err != nil {
		return 0, err
	}
	var wg sync.WaitGroup
	errs := make([]error, len(c.Conns))
	var entered int64
	for k := range c.Conns {
		k, tc := k, c.Conns[k]
		script := []Op{{Op: "reply", P: json.RawMessage(`{"upgraded":true}`)}}
		for _, op := range tc.Ops {
			script = append(script, Op{Op: op.Kind, N: op.N})
		}
		script = append(script, Op{Op: "readall"})
		b, _ := json.Marshal(ScriptParams{Conn: k, ID: 0, Script: script})
		var stream []byte
		for p := 0; p < tc.Pings; p++ {
			pb, _ := json.Marshal(ScriptParams{Conn: k, ID: 100 + p, Script: []Op{{Op: "reply", P: json.RawMessage(fmt.Sprintf(`{"conn":%d,"n":%d}`, k, p))}}})
			stream = append(append(stream, EncodeCall("x.y.Ping", pb, false, false, false)...), 0)
		}
		stream = append(append(stream, EncodeCall("x.y.Up", b, false, false, true)...), 0)
		stream = append(stream, tc.Tail...)
		var conn net.Conn
		if tr == "pipe" {
			conn = env.fake.Connect()
		} else {
			for dl := time.Now().Add(bound); time.Now().Before(dl); {
				conn, err = net.Dial("unix", env.sockPath)
				if err == nil {
					break
				}
				time.Sleep(time.Millisecond)
			}
			if err != nil {
				env.svc.Shutdown()
				env.cleanup()
				return 0, fmt.Errorf("HARNESS: dial: %v", err)
			}
		}
		wg.Add(1)
		go func() {
			defer wg.Done()
			defer conn.Close()
			rdone := make(chan []byte, 1)
			go func() {
				got, _, _ := readFrames(conn, -1, bound)
				rdone <- got
			}()
			atomic.AddInt64(&entered, 1)
			// all connections start writing at about the same time
			for dl := time.Now().Add(bound); atomic.LoadInt64(&entered) < int64(len(c.Conns)) && time.Now().Before(dl); {
				time.Sleep(50 * time.Microsecond)
			}
			cuts := []int(nil)
			if tc.Cut > 0 {
				cuts = []int{tc.Cut}
			}
			for _, seg := range Segments(stream, cuts) {
				conn.SetWriteDeadline(time.Now().Add(bound))
				if _, werr := conn.Write(seg); werr != nil {
					errs[k] = fmt.Errorf("connection %d: the service stopped reading: %v", k, werr)
					return
				}
			}
			if uc, ok := conn.(*net.UnixConn); ok {
				uc.CloseWrite()
			} else {
				// the pipe has no half-close: wait until this connection's handler has replied, then close
				for dl := time.Now().Add(bound); time.Now().Before(dl); {
					ok := false
					for _, in := range env.log.All() {
						if in.Conn == k && in.Method == "Up" && len(in.Results) >= 1 {
							ok = true
						}
					}
					if ok {
						break
					}
					time.Sleep(100 * time.Microsecond)
				}
				time.Sleep(200 * time.Microsecond)
				conn.Close()
			}
			select {
			case back := <-rdone:
				if c.Transport == "unix" {
					frames, _ := SplitFrames(back)
					if len(frames) != tc.Pings+1 {
						errs[k] = fmt.Errorf("connection %d: the client received %d reply frames, want %d: %s", k, len(frames), tc.Pings+1, Preview(back))
						return
					}
					for p := 0; p < tc.Pings; p++ {
						var wr struct {
							Parameters struct{ Conn, N int }
						}
						if json.Unmarshal(frames[p], &wr) != nil || wr.Parameters.Conn != k || wr.Parameters.N != p {
							errs[k] = fmt.Errorf("connection %d: reply %d is %s - not the reply of this connection's call", k, p, Preview(frames[p]))
							return
						}
					}
				}
			case <-time.After(bound + time.Second):
				errs[k] = fmt.Errorf("connection %d: the service did not hang up within %v after the client had sent everything and half-closed", k, bound)
			}
		}()
	}
	wg.Wait()
	serr := env.stop(bound)
	for _, e := range errs {
		if e != nil {
			return len(c.Conns), e
		}
	}
	inv := env.log.All()
	seen := map[int]bool{}
	for _, in := range inv {
		if in.Method != "Up" {
			continue
		}
		k := in.Conn
		if k < 0 || k >= len(c.Conns) || seen[k] {
			return len(c.Conns), fmt.Errorf("handler side: upgrade call of connection %d dispatched twice or unknown", k)
		}
		seen[k] = true
		if in.Exit == 0 {
			return len(c.Conns), fmt.Errorf("handler side: the handler of connection %d never returned", k)
		}
		if len(in.Results) < 1 {
			return len(c.Conns), fmt.Errorf("handler side: the handler script of connection %d did not run", k)
		}
		if d, _ := checkReads(c.Conns[k].Tail, c.Conns[k].Ops, in.Results[1:]); d != "" {
			return len(c.Conns), fmt.Errorf("handler side, connection %d of %d served at the same time: %s", k, len(c.Conns), d)
		}
	}
	if len(seen) != len(c.Conns) {
		return len(c.Conns), fmt.Errorf("handler side: %d of %d upgrade calls were dispatched", len(seen), len(c.Conns))
	}
	return len(c.Conns), serr
}

func twinTail(k, n int, frames int) []byte {
	var b bytes.Buffer
	for f := 0; f < frames; f++ {
		fmt.Fprintf(&b, `{"conn":%d,"frame":%d}`, k, f)
		b.WriteByte(0)
	}
	for i := 0; i < n; i++ {
		b.WriteByte(byte('A' + (k*7+i)%26)) // never NUL: the raw part has no delimiter
	}
	return b.Bytes()
}

func genC18Twins(t *rapid.T) C18TwinCase {
	c := C18TwinCase{Side: rapid.SampledFrom([]string{"client", "client", "client", "handler"}).Draw(t, "side"), Transport: rapid.SampledFrom([]string{"unix", "unix", "pipe"}).Draw(t, "transport")}
	n := rapid.IntRange(2, 6).Draw(t, "conns")
	for k := 0; k < n; k++ {
		tc := TwinConn{Pings: rapid.IntRange(0, 2).Draw(t, "pings"), Closes: rapid.SampledFrom([]int{1, 1, 2, 2, 3}).Draw(t, "closes")}
		tc.Tail = twinTail(k, rapid.SampledFrom([]int{0, 1, 30, 300, 4090, 4097, 9000}).Draw(t, "raw"), rapid.IntRange(0, 3).Draw(t, "frames"))
		for i := rapid.IntRange(0, 6).Draw(t, "nops"); i > 0; i-- {
			if rapid.IntRange(0, 2).Draw(t, "rk") == 0 {
				tc.Ops = append(tc.Ops, ReadOp{Kind: "readbytes"})
			} else {
				tc.Ops = append(tc.Ops, ReadOp{Kind: "read", N: rapid.SampledFrom([]int{1, 7, 100, 4096, 10000}).Draw(t, "rn")})
			}
		}
		if c.Side == "client" {
			switch rapid.IntRange(0, 7).Draw(t, "kind") {
			case 0:
				tc.NoUp = true
			case 1:
				tc.Unused = true
			case 2:
				tc.Early = true
			}
		}
		if rapid.IntRange(0, 3).Draw(t, "cutp") == 0 {
			tc.Cut = rapid.SampledFrom([]int{1, 33, 34, 40, 4096}).Draw(t, "cut")
		}
		c.Conns = append(c.Conns, tc)
	}
	if c.Side == "client" {
		c.Order = rapid.SliceOfN(rapid.IntRange(0, n-1), 0, 40).Draw(t, "order")
	}
	return c
}

func checkC18Twins(c C18TwinCase, st *Stats) error {
	bound := protoBound * WatchdogScale()
	var overlap int
	var err error
	if c.Side == "handler" {
		overlap, err = execC18TwinsHandler(c, bound)
	} else {
		overlap, err = execC18TwinsClient(c, bound)
	}
	if err == nil {
		if left := LibGoroutines(bound / 2); left != "" {
			err = fmt.Errorf("library goroutines still alive after the exchange:\n%s", left)
		}
	}
	multi := false
	for _, tc := range c.Conns {
		if tc.Closes > 1 {
			multi = true
		}
	}
	labels := []string{"twins", "side:" + c.Side, "transport:" + c.Transport, fmt.Sprintf("open-at-once:%d", overlap)}
	if multi {
		labels = append(labels, "a-connection-closed-more-than-once")
	}
	st.Case(HashOf(c), overlap >= 2, func() interface{} { return c }, labels...)
	return err
}

var propC18Twins = Register(Prop[C18TwinCase]{ID: "C18", Name: "C18Twins", Pending: true, Check: checkC18Twins})

func TestC18Twins(t *testing.T) {
	p := propC18Twins
	p.Gen = genC18Twins
	RunRapid(t, p, "C18Twins")
}

// TestC18TwinsFixed: the churn shapes by construction - k throw-away connections closed 1-3 times (unused, pinged,
// upgraded and half read), then two or three connections that are open at the same time and read alternately.
func TestC18TwinsFixed(t *testing.T) {
	var cases []C18TwinCase
	ops := []ReadOp{{Kind: "readbytes"}, {Kind: "read", N: 7}, {Kind: "readbytes"}, {Kind: "read", N: 100}, {Kind: "read", N: 4096}}
	for _, tr := range []string{"unix", "pipe"} {
		for closes := 1; closes <= 3; closes++ {
			for kind := 0; kind < 4; kind++ {
				for twins := 2; twins <= 3; twins++ {
					first := TwinConn{Pings: 1, Closes: closes, Tail: twinTail(0, 50, 1), Ops: ops[:2]}
					switch kind {
					case 0:
						first.Unused = true
					case 1:
						first.NoUp = true
					case 2:
						first.Early = true
					}
					c := C18TwinCase{Side: "client", Transport: tr, Conns: []TwinConn{first}}
					for i := 0; i < 2+closes; i++ {
						c.Order = append(c.Order, 0, 0)
					}
					for k := 1; k <= twins; k++ {
						c.Conns = append(c.Conns, TwinConn{Pings: 1, Closes: 1, Tail: twinTail(k, 300+k, 2), Ops: ops})
					}
					for k := 1; k <= twins; k++ {
						c.Order = append(c.Order, k) // open all twins first
					}
					for r := 0; r < 10; r++ {
						for k := 1; k <= twins; k++ {
							c.Order = append(c.Order, k)
						}
					}
					cases = append(cases, c)
				}
			}
		}
		for n := 2; n <= 8; n += 3 {
			c := C18TwinCase{Side: "handler", Transport: tr}
			for k := 0; k < n; k++ {
				c.Conns = append(c.Conns, TwinConn{Pings: k % 3, Tail: twinTail(k, 500+k*1000, 2), Ops: ops, Cut: []int{0, 1, 4096}[k%3]})
			}
			cases = append(cases, c)
		}
	}
	shard, nshards := Shard()
	i := 0
	next := func() (C18TwinCase, bool) {
		for i < len(cases) {
			k := i
			i++
			if k%nshards == shard {
				return cases[k], true
			}
		}
		return C18TwinCase{}, false
	}
	RunCases(t, propC18Twins, "C18TwinsFixed", false, next)
}
