package props

// C18 Upgraded connections continue the byte stream without loss.
//
// Handler side: a raw client sends an upgrade call followed by further NUL-terminated frames and a
// payload, under a cut plan that often puts the request frame and the following bytes into one
// segment; the handler consumes Call.Conn with a generated sequence of ReadBytes(0) / Read(n) and
// finally drains to EOF. Client side: a raw server answers an Upgrade with a reply frame followed
// by such bytes; the object returned by Upgrade is consumed the same way. Oracle: a cursor over
// the peer's stream (model.StreamReader).

import (
	"bytes"
	"context"
	"encoding/json"
	"fmt"
	"net"
	"os"
	"runtime"
	"strings"
	"sync"
	"sync/atomic"
	"testing"
	"time"

	"github.com/varlink/go/varlink"
	"pgregory.net/rapid"
)

// ReadOp is one consumer operation.
type ReadOp struct {
	Kind string `json:"kind"` // "readbytes" | "read"
	N    int    `json:"n,omitempty"`
}

// C18Case is one upgraded exchange.
type C18Case struct {
	Side      string   `json:"side"`      // "handler" | "client"
	Transport string   `json:"transport"` // pipe | unix
	Tail      Blob     `json:"tail"`      // what the peer sends after the request (reply) frame
	Cuts      []int    `json:"cuts,omitempty"`
	Ops       []ReadOp `json:"ops"`
	Back      Blob     `json:"back,omitempty"` // what the consumer writes raw after its reply / request
	// Hangup (client side, kernel socket): the peer sends its bytes and closes at once; the client keeps writing raw
	// data until a Write fails for good, and only then reads. What the peer sent before it hung up is still there.
	Hangup bool `json:"hangup,omitempty"`
	// Duplex (client side): the raw reads run in a goroutine of their own and are already waiting when the main
	// goroutine writes Back; the peer sends its tail only after it has received Back (one reader, one writer)
	Duplex bool `json:"duplex,omitempty"`
	// DropConn (client side): after Upgrade the caller keeps only the object Upgrade returned and lets go of the
	// *Connection; a garbage collection later that object must still deliver the stream
	DropConn bool `json:"drop_conn,omitempty"`
	// Pad: the request (handler side) / reply (client side) frame itself carries a string of this many bytes, so that
	// the frame is larger than the reader's buffer and its tail shares a segment with the bytes that follow it
	Pad int `json:"pad,omitempty"`
	// LateMS (client side): the upgrade reply is awaited under a context whose deadline lies LateMS ms ahead and arrives
	// at once; the raw reads then run under a context WITHOUT deadline, and the peer sends everything after its first
	// segment only when that deadline has passed. The stream does not end where an earlier operation's deadline lay.
	LateMS int `json:"late_ms,omitempty"`
}

// checkReads runs the cursor model over the results; the last result is the drain.
func checkReads(tail []byte, ops []ReadOp, res []OpResult) (string, bool) {
	pos := 0
	mixed := false
	lastWasFrame := true // the request / reply frame itself was read through the frame path
	for i, op := range ops {
		if i >= len(res) {
			return fmt.Sprintf("consumer op %d (%s) was never executed", i, op.Kind), mixed
		}
		got, e := res[i].Data, res[i].Err
		rem := tail[pos:]
		switch op.Kind {
		case "readbytes":
			k := bytes.IndexByte(rem, 0)
			if k >= 0 {
				want := rem[:k+1]
				if e != "" {
					return fmt.Sprintf("op %d ReadBytes(0) failed with %q although the peer sent a complete frame next: %s", i, e, Preview(want)), mixed
				}
				if !bytes.Equal(got, want) {
					return fmt.Sprintf("op %d ReadBytes(0) returned %s, the next bytes the peer sent up to the delimiter are %s", i, Preview(got), Preview(want)), mixed
				}
			} else {
				// no delimiter before the end of the stream: everything that is left, with an error
				if !bytes.Equal(got, rem) {
					return fmt.Sprintf("op %d ReadBytes(0) at end of stream returned %s, the peer's remaining bytes are %s", i, Preview(got), Preview(rem)), mixed
				}
				if e == "" {
					return fmt.Sprintf("op %d ReadBytes(0) reported success without a delimiter (stream ended)", i), mixed
				}
			}
			pos += len(got)
			lastWasFrame = true
		case "read":
			if len(rem) == 0 {
				if len(got) != 0 {
					return fmt.Sprintf("op %d Read(%d) returned %s after the end of the peer's stream", i, op.N, Preview(got)), mixed
				}
				if e == "" {
					return fmt.Sprintf("op %d Read(%d) returned 0 bytes and no error at end of stream", i, op.N), mixed
				}
				break
			}
			if lastWasFrame {
				mixed = true
			}
			if e != "" {
				return fmt.Sprintf("op %d Read(%d) failed with %q although the peer had sent %d more bytes: %s", i, op.N, e, len(rem), Preview(rem)), mixed
			}
			if len(got) == 0 || len(got) > op.N {
				return fmt.Sprintf("op %d Read(%d) returned %d bytes", i, op.N, len(got)), mixed
			}
			if !bytes.HasPrefix(rem, got) {
				return fmt.Sprintf("op %d Read(%d) returned %s, but the very next bytes the peer sent are %s", i, op.N, Preview(got), Preview(rem[:min(len(rem), len(got)+16)])), mixed
			}
			pos += len(got)
			lastWasFrame = false
		}
	}
	if len(res) <= len(ops) {
		return "the final drain was never executed", mixed
	}
	drain := res[len(ops)].Data
	if !bytes.Equal(drain, tail[pos:]) {
		return fmt.Sprintf("after the consumer ops, draining to EOF returned %d bytes %s, the peer's remaining %d bytes are %s (bytes lost, duplicated or reordered)", len(drain), Preview(drain), len(tail)-pos, Preview(tail[pos:])), mixed
	}
	return "", mixed
}

var c18Counter int64

func execC18Handler(c C18Case, bound time.Duration) (bool, error) {
	tr := "pipe"
	if c.Transport == "unix" {
		tr = "unixabs"
	}
	env, err := startE2E([]string{"x.y"}, tr, true)
	if err != nil {
		return false, err
	}
	script := []Op{{Op: "reply", P: json.RawMessage(`{"upgraded":true}`)}}
	if len(c.Back) > 0 {
		script = append(script, Op{Op: "write", Data: c.Back})
	}
	nPre := len(script)
	for _, op := range c.Ops {
		script = append(script, Op{Op: op.Kind, N: op.N})
	}
	script = append(script, Op{Op: "readall"})
	sp := ScriptParams{Conn: 0, ID: 0, Script: script}
	if c.Pad > 0 {
		sp.Pad = json.RawMessage(`"` + strings.Repeat("p", c.Pad) + `"`)
	}
	b, _ := json.Marshal(sp)
	stream := append(append(EncodeCall("x.y.Up", b, false, false, true), 0), c.Tail...)
	var conn net.Conn
	if tr == "pipe" {
		conn = env.fake.Connect()
	} else {
		for dl := time.Now().Add(bound); time.Now().Before(dl); {
			conn, err = net.Dial("unix", env.sockPath)
			if err == nil {
				break
			}
			time.Sleep(time.Millisecond)
		}
		if err != nil {
			env.svc.Shutdown()
			env.cleanup()
			return false, fmt.Errorf("HARNESS: dial: %v", err)
		}
	}
	rdone := make(chan []byte, 1)
	go func() {
		got, _, _ := readFrames(conn, -1, bound)
		rdone <- got
	}()
	for _, seg := range Segments(stream, c.Cuts) {
		conn.SetWriteDeadline(time.Now().Add(bound))
		if _, werr := conn.Write(seg); werr != nil {
			break
		}
	}
	if uc, ok := conn.(*net.UnixConn); ok {
		uc.CloseWrite()
	} else {
		// the pipe has no half-close: wait until the handler has replied (and written back), then close
		dl := time.Now().Add(bound)
		for time.Now().Before(dl) {
			inv := env.log.All()
			if len(inv) == 1 && len(inv[0].Results) >= nPre {
				break
			}
			time.Sleep(100 * time.Microsecond)
		}
		time.Sleep(200 * time.Microsecond)
		conn.Close()
	}
	var back []byte
	select {
	case back = <-rdone:
	case <-time.After(bound + time.Second):
	}
	conn.Close()
	serr := env.stop(bound)
	inv := env.log.All()
	if len(inv) != 1 {
		return false, fmt.Errorf("%d handler invocations, want 1 (the upgrade call)", len(inv))
	}
	if inv[0].Exit == 0 {
		return false, fmt.Errorf("the handler never returned (a raw read is still blocked although the peer closed)")
	}
	if !inv[0].Upgrade {
		return false, fmt.Errorf("the handler did not see the upgrade flag")
	}
	res := inv[0].Results
	if len(res) < nPre {
		return false, fmt.Errorf("the handler script stopped after %d actions", len(res))
	}
	d, mixed := checkReads(c.Tail, c.Ops, res[nPre:])
	if d != "" {
		return mixed, fmt.Errorf("handler side: %s", d)
	}
	if c.Transport == "unix" || len(back) > 0 {
		frames, _ := SplitFrames(back)
		if len(frames) < 1 {
			return mixed, fmt.Errorf("handler side: the client did not receive the reply frame (got %s)", Preview(back))
		}
		want := append(append(append([]byte(nil), frames[0]...), 0), c.Back...)
		if c.Transport == "unix" && !bytes.Equal(back, want) {
			return mixed, fmt.Errorf("handler side: after the reply frame the client received %s, the handler wrote %s", Preview(back[len(frames[0])+1:]), Preview(c.Back))
		}
	}
	if serr != nil {
		return mixed, serr
	}
	return mixed, nil
}

func execC18Client(c C18Case, bound time.Duration) (bool, error) {
	var cli *varlink.Connection
	var srv net.Conn
	if c.Transport == "unix" {
		name := fmt.Sprintf("@verif-c18-%d-%d", os.Getpid(), atomic.AddInt64(&c18Counter, 1))
		l, err := net.Listen("unix", name)
		if err != nil {
			return false, fmt.Errorf("HARNESS: %v", err)
		}
		defer l.Close()
		acc := make(chan net.Conn, 1)
		go func() { s, _ := l.Accept(); acc <- s }()
		ctx, cancel := context.WithTimeout(context.Background(), bound)
		cc, err := varlink.NewConnection(ctx, "unix:"+name)
		cancel()
		if err != nil {
			return false, fmt.Errorf("NewConnection failed: %v", err)
		}
		cli, srv = cc, <-acc
	} else {
		a, b := net.Pipe()
		cli, srv = varlink.VerifNewConnection(sockLikePipe{a}), b
	}
	defer func() {
		if cli != nil {
			cli.Close()
		}
	}()
	reply := []byte(`{"parameters":{"upgraded":true}}`)
	if c.Pad > 0 {
		reply = []byte(`{"parameters":{"upgraded":true,"pad":"` + strings.Repeat("p", c.Pad) + `"}}`)
	}
	stream := append(append(append([]byte(nil), reply...), 0), c.Tail...)
	gotBack := make(chan []byte, 1)
	go func() {
		defer srv.Close()
		var mu sync.Mutex
		var req []byte
		rdone := make(chan struct{})
		go func() { // the server reads all the time, so that raw writes of the client never wait for the server's own writes
			defer close(rdone)
			buf := make([]byte, 65536)
			for {
				n, err := srv.Read(buf)
				mu.Lock()
				req = append(req, buf[:n]...)
				mu.Unlock()
				if err != nil {
					return
				}
			}
		}()
		snapshot := func() []byte { mu.Lock(); defer mu.Unlock(); return append([]byte(nil), req...) }
		waitFor := func(cond func([]byte) bool) bool {
			dl := time.Now().Add(bound)
			for time.Now().Before(dl) {
				if cond(snapshot()) {
					return true
				}
				select {
				case <-rdone:
					return cond(snapshot())
				case <-time.After(100 * time.Microsecond):
				}
			}
			return false
		}
		if !waitFor(func(b []byte) bool { return bytes.IndexByte(b, 0) >= 0 }) {
			gotBack <- snapshot()
			return
		}
		if c.Duplex && len(c.Back) > 0 {
			// reply first; the tail follows once the client's raw write has arrived
			srv.SetWriteDeadline(time.Now().Add(bound))
			if _, err := srv.Write(stream[:len(reply)+1]); err != nil {
				gotBack <- snapshot()
				return
			}
			stream = stream[len(reply)+1:]
			waitFor(func(b []byte) bool { return len(b)-(bytes.IndexByte(b, 0)+1) >= len(c.Back) })
		}
		for si, seg := range Segments(stream, c.Cuts) {
			if c.LateMS > 0 && si == 1 {
				time.Sleep(time.Duration(c.LateMS+40) * time.Millisecond)
			}
			srv.SetWriteDeadline(time.Now().Add(bound))
			if _, err := srv.Write(seg); err != nil {
				break
			}
		}
		if c.Hangup {
			srv.Close()
			gotBack <- snapshot()
			return
		}
		waitFor(func(b []byte) bool { return len(b)-(bytes.IndexByte(b, 0)+1) >= len(c.Back) })
		gotBack <- snapshot()
	}()
	ctx, cancel := context.WithTimeout(context.Background(), bound)
	defer cancel()
	t0 := time.Now()
	if c.LateMS > 0 {
		cancel()
		ctx, cancel = context.WithTimeout(context.Background(), time.Duration(c.LateMS)*time.Millisecond)
		defer cancel()
	}
	recv, err := cli.Upgrade(ctx, "x.y.Up", map[string]int{"a": 1})
	if err != nil {
		if c.LateMS > 0 && isTimeoutErr(err) {
			return false, nil // the machine was too slow for the short deadline: the case says nothing
		}
		return false, fmt.Errorf("client side: Upgrade failed: %v", err)
	}
	var out json.RawMessage
	fl, rwc, err := recv(ctx, &out)
	if c.LateMS > 0 {
		if err != nil && isTimeoutErr(err) {
			return false, nil
		}
		// from here on: a context without deadline (the harness cancels it if nothing happens within the bound)
		ctx2, cancel2 := context.WithCancel(context.Background())
		defer cancel2()
		tm := time.AfterFunc(bound, cancel2)
		defer tm.Stop()
		ctx = ctx2
	}
	if err != nil || rwc == nil {
		return false, fmt.Errorf("client side: the upgrade reply was not received: flags %#x, conn %v, err %v", fl, rwc, err)
	}
	wantOut := []byte(`{"upgraded":true}`)
	if c.Pad > 0 {
		wantOut = []byte(`{"upgraded":true,"pad":"` + strings.Repeat("p", c.Pad) + `"}`)
	}
	if d := JSONDiff(wantOut, out); d != "" {
		return false, fmt.Errorf("client side: upgrade reply parameters: %s", d)
	}
	if c.DropConn {
		cli, recv = nil, nil
		runtime.GC()
		time.Sleep(2 * time.Millisecond)
		runtime.GC()
		time.Sleep(time.Millisecond)
	}
	if c.Hangup {
		// write until it fails for good (the peer has closed or is about to); a write error concerns the write direction only
		chunk := bytes.Repeat([]byte("u"), 64<<10)
		for i := 0; i < 512; i++ {
			if _, werr := rwc.Write(ctx, chunk); werr != nil {
				if isTimeoutErr(werr) {
					return false, fmt.Errorf("client side: a raw Write to a peer that has hung up did not fail within %v", bound)
				}
				break
			}
		}
	} else if len(c.Back) > 0 && !c.Duplex {
		if _, werr := rwc.Write(ctx, c.Back); werr != nil {
			return false, fmt.Errorf("client side: raw Write on the upgraded connection failed: %v", werr)
		}
	}
	var res []OpResult
	writeDone := make(chan error, 1)
	if c.Duplex && len(c.Back) > 0 && !c.Hangup {
		go func() {
			time.Sleep(2 * time.Millisecond) // the first read below is waiting by now
			n, werr := rwc.Write(ctx, c.Back)
			if werr == nil && n != len(c.Back) {
				werr = fmt.Errorf("Write returned %d, want %d", n, len(c.Back))
			}
			writeDone <- werr
		}()
	} else {
		writeDone <- nil
	}
	for _, op := range c.Ops {
		var r OpResult
		switch op.Kind {
		case "readbytes":
			b, e := rwc.ReadBytes(ctx, 0)
			r = OpResult{Data: b, Err: errStr(e)}
		default:
			buf := make([]byte, op.N)
			n, e := rwc.Read(ctx, buf)
			r = OpResult{Data: buf[:n], Err: errStr(e)}
		}
		res = append(res, r)
	}
	var drain OpResult
	buf := make([]byte, 4096)
	for {
		n, e := rwc.Read(ctx, buf)
		drain.Data = append(drain.Data, buf[:n]...)
		if e != nil {
			if c.LateMS > 0 && isTimeoutErr(e) && ctx.Err() == nil {
				return false, fmt.Errorf("client side: a raw Read under a context without deadline failed with %q, %v after the upgrade was sent under a context with a %d ms deadline (a deadline armed for an earlier, completed operation is still in force); %d bytes were delivered", e, time.Since(t0).Round(time.Millisecond), c.LateMS, len(drain.Data))
			}
			if isTimeoutErr(e) || ctx.Err() != nil {
				return false, fmt.Errorf("client side: draining the upgraded connection hung for %v after %d bytes", bound, len(drain.Data))
			}
			break
		}
		if n == 0 {
			return false, fmt.Errorf("client side: Read returned 0 bytes and no error")
		}
	}
	res = append(res, drain)
	select {
	case werr := <-writeDone:
		if werr != nil {
			return false, fmt.Errorf("client side: a raw Write issued while another goroutine was waiting in a raw read failed: %v", werr)
		}
	case <-time.After(bound):
		return false, fmt.Errorf("client side: a raw Write issued while another goroutine was waiting in a raw read did not return within %v", bound)
	}
	d, mixed := checkReads(c.Tail, c.Ops, res)
	if d != "" {
		if c.LateMS > 0 {
			return mixed, fmt.Errorf("client side (upgrade reply awaited under a context with a %d ms deadline, raw reads under a context without deadline, the peer's later bytes sent after that deadline): %s", c.LateMS, d)
		}
		if c.DropConn {
			return mixed, fmt.Errorf("client side (only the object returned by Upgrade is still referenced, two garbage collections later): %s", d)
		}
		if c.Duplex {
			return mixed, fmt.Errorf("client side (reads waiting in one goroutine while another wrote %d bytes): %s", len(c.Back), d)
		}
		if c.Hangup {
			return mixed, fmt.Errorf("client side (the peer sent its bytes and hung up, a raw Write failed, then the client read): %s", d)
		}
		return mixed, fmt.Errorf("client side: %s", d)
	}
	if c.Hangup {
		<-gotBack
		return mixed, nil
	}
	select {
	case req := <-gotBack:
		i := bytes.IndexByte(req, 0)
		if i < 0 {
			return mixed, fmt.Errorf("client side: the server never received the request frame")
		}
		var wc wireCall
		if json.Unmarshal(req[:i], &wc) != nil || !wc.Upgrade || wc.More || wc.Oneway || wc.Method != "x.y.Up" {
			return mixed, fmt.Errorf("client side: Upgrade sent %s", Preview(req[:i]))
		}
		if !bytes.Equal(req[i+1:], c.Back) {
			return mixed, fmt.Errorf("client side: after the request frame the server received %s, the client wrote %s", Preview(req[i+1:]), Preview(c.Back))
		}
	case <-time.After(bound):
		return mixed, fmt.Errorf("HARNESS: raw server did not finish")
	}
	return mixed, nil
}

func genC18(t *rapid.T) C18Case {
	c := C18Case{Side: rapid.SampledFrom([]string{"handler", "handler", "client"}).Draw(t, "side"), Transport: "pipe"}
	if rapid.IntRange(0, 4).Draw(t, "unix") == 0 {
		c.Transport = "unix"
	}
	var tail bytes.Buffer
	bigSizes := []int{4000, 4090, 4096, 4100, 5000, 8190, 8200, 12000, 16400, 33000, 70000}
	if rapid.IntRange(0, 3).Draw(t, "padded") == 0 {
		c.Pad = rapid.SampledFrom(bigSizes).Draw(t, "pad")
	}
	for k := rapid.IntRange(0, 3).Draw(t, "preframes"); k > 0; k-- {
		if rapid.IntRange(0, 5).Draw(t, "bigpre") == 0 {
			// a frame larger than the reader's buffer among the frames that precede the raw data
			tail.WriteString(`{"big":"` + strings.Repeat("b", rapid.SampledFrom(bigSizes).Draw(t, "bigprelen")) + `"}`)
		} else {
			tail.WriteString(DefaultJSON.Object(t, 2))
		}
		tail.WriteByte(0)
	}
	pk := rapid.IntRange(0, 4).Draw(t, "payload")
	huge := false
	if rapid.IntRange(0, 39).Draw(t, "huge") == 17 {
		// a long upgraded stream: megabytes of raw data after the last frame read
		n := rapid.SampledFrom([]int{1<<20 + 4097, 2 << 20, 3<<20 + 1}).Draw(t, "hugelen")
		buf := make([]byte, n)
		for i := range buf {
			buf[i] = byte(i*31 + i>>11)
		}
		tail.Write(buf)
		huge = true
		pk = 0
	}
	switch pk {
	case 0:
	case 1:
		tail.Write(rapid.SliceOfN(rapid.Byte(), 1, 40).Draw(t, "small"))
	case 2:
		n := rapid.SampledFrom([]int{4000, 4095, 4096, 4097, 8192, 10000}).Draw(t, "plen")
		for i := 0; i < n; i++ {
			tail.WriteByte(byte(i*7 + i>>8))
		}
	default:
		n := rapid.IntRange(1, 3000).Draw(t, "plen")
		seed := rapid.IntRange(0, 255).Draw(t, "pseed")
		for i := 0; i < n; i++ {
			tail.WriteByte(byte(seed + i*13 + (i>>7)*3))
		}
	}
	c.Tail = tail.Bytes()
	switch rapid.IntRange(0, 5).Draw(t, "cut") {
	case 0, 1, 2: // everything in one segment: the frame is coalesced with what follows
		c.Cuts = nil
	case 3:
		c.Cuts = []int{1}
	case 4:
		c.Cuts = []int{rapid.SampledFrom([]int{4095, 4096, 4097, 100}).Draw(t, "cutn")}
	default:
		c.Cuts = rapid.SliceOfN(rapid.IntRange(1, 5000), 1, 5).Draw(t, "cuts")
	}
	if huge && len(c.Cuts) > 0 && c.Cuts[0] < 4096 {
		c.Cuts = []int{65536}
	}
	n := rapid.IntRange(1, 12).Draw(t, "nops")
	for i := 0; i < n; i++ {
		if rapid.IntRange(0, 2).Draw(t, "rk") == 0 {
			c.Ops = append(c.Ops, ReadOp{Kind: "readbytes"})
		} else {
			c.Ops = append(c.Ops, ReadOp{Kind: "read", N: rapid.SampledFrom([]int{1, 2, 100, 4095, 4096, 4097, 10000}).Draw(t, "rn")})
		}
	}
	if rapid.Bool().Draw(t, "back") {
		c.Back = rapid.SliceOfN(rapid.Byte(), 1, 200).Draw(t, "backdata")
	}
	if c.Side == "client" && c.Transport == "unix" && rapid.IntRange(0, 2).Draw(t, "hangup") == 0 {
		c.Hangup = true
	}
	if c.Side == "client" && c.Transport == "unix" && !c.Hangup && rapid.IntRange(0, 3).Draw(t, "dropconn") == 0 {
		c.DropConn = true
	}
	if c.Side == "client" && !c.Hangup && len(c.Back) > 0 && len(c.Tail) > 0 && rapid.IntRange(0, 1).Draw(t, "duplex") == 0 {
		c.Duplex = true
	}
	if c.Side == "client" && !c.Hangup && !c.Duplex && !huge && len(c.Tail) > 8 && rapid.IntRange(0, 11).Draw(t, "late") == 0 {
		c.LateMS = 60
		c.Pad = 0
		c.Cuts = []int{33 + rapid.IntRange(0, 6).Draw(t, "latecut")}
	}
	return c
}

func checkC18(c C18Case, st *Stats) error {
	bound := protoBound * WatchdogScale()
	var mixed bool
	var err error
	if c.Side == "client" {
		mixed, err = execC18Client(c, bound)
	} else {
		mixed, err = execC18Handler(c, bound)
	}
	if err == nil {
		if left := LibGoroutines(bound / 2); left != "" {
			err = fmt.Errorf("library goroutines still alive after the exchange:\n%s", left)
		}
	}
	coalesced := len(c.Cuts) == 0 && len(c.Tail) > 0
	labels := []string{"side:" + c.Side, "transport:" + c.Transport}
	if coalesced {
		labels = append(labels, "frame+following-bytes-in-one-segment")
	}
	if len(c.Tail) > 1<<20 {
		labels = append(labels, "payload>1MiB")
	}
	if mixed {
		labels = append(labels, "raw-read-after-frame-read")
	}
	if c.Hangup {
		labels = append(labels, "peer-hung-up+write-failed-before-reading")
	}
	if c.Duplex {
		labels = append(labels, "raw-write-while-raw-read-waits")
	}
	if c.LateMS > 0 {
		labels = append(labels, "stream-continues-after-an-earlier-deadline")
	}
	st.Case(HashOf(c), mixed && len(c.Tail) > 0 && (coalesced || len(c.Cuts) > 0 && c.Cuts[0] > 64), func() interface{} { return c }, labels...)
	return err
}

var propC18 = Register(Prop[C18Case]{ID: "C18", Name: "C18", Pending: true, Check: checkC18})

func TestC18Rapid(t *testing.T) {
	p := propC18
	p.Gen = genC18
	RunRapid(t, p, "C18Rapid")
}

// TestC18Enum: both sides x both transports x {coalesced, byte-wise, 4096} x all consumer
// sequences of length <= 3 over {ReadBytes, Read(1), Read(5000)} on a fixed stream.
func TestC18Enum(t *testing.T) {
	tail := []byte(`{"f":1}` + "\x00" + `{"g":2}` + "\x00" + "PAYLOAD-0123456789\x00tail-without-delimiter")
	kinds := []ReadOp{{Kind: "readbytes"}, {Kind: "read", N: 1}, {Kind: "read", N: 5000}}
	var seqs [][]ReadOp
	var rec func(cur []ReadOp)
	rec = func(cur []ReadOp) {
		if len(cur) > 0 {
			seqs = append(seqs, append([]ReadOp(nil), cur...))
		}
		if len(cur) == 3 {
			return
		}
		for _, k := range kinds {
			rec(append(cur, k))
		}
	}
	rec(nil)
	var cases []C18Case
	for _, side := range []string{"handler", "client"} {
		for _, tr := range []string{"pipe", "unix"} {
			for _, cuts := range [][]int{nil, {1}, {4096}, {9}} {
				for _, s := range seqs {
					cases = append(cases, C18Case{Side: side, Transport: tr, Tail: tail, Cuts: cuts, Ops: s, Back: Blob("raw-back\x00x")})
				}
			}
		}
	}
	for _, tr := range []string{"pipe", "unix"} {
		for _, s := range seqs {
			cases = append(cases, C18Case{Side: "client", Transport: tr, Tail: tail, Cuts: []int{9}, Ops: s, Back: Blob("raw-back\x00x"), Duplex: true})
		}
	}
	for _, s := range seqs {
		cases = append(cases, C18Case{Side: "client", Transport: "unix", Tail: tail, Cuts: []int{9}, Ops: s, DropConn: true})
	}
	for _, tr := range []string{"pipe", "unix"} {
		for _, s := range seqs[:12] {
			cases = append(cases, C18Case{Side: "client", Transport: tr, Tail: tail, Cuts: []int{36}, Ops: s, LateMS: 60})
		}
	}
	long := append(append([]byte(nil), tail...), bytes.Repeat([]byte("0123456789abcdef"), 1024)...) // beyond the read buffer: part of it is still in the kernel
	for _, cuts := range [][]int{nil, {4096}} {
		for _, s := range seqs {
			cases = append(cases, C18Case{Side: "client", Transport: "unix", Tail: long, Cuts: cuts, Ops: s, Hangup: true})
		}
	}
	shard, nshards := Shard()
	i := 0
	next := func() (C18Case, bool) {
		for i < len(cases) {
			k := i
			i++
			if k%nshards == shard {
				return cases[k], true
			}
		}
		return C18Case{}, false
	}
	RunCases(t, propC18, "C18Enum", true, next)
}

// FuzzC18: the fuzzer's bytes choose side, cut plan, consumer operations and the peer's stream.
func FuzzC18(f *testing.F) {
	f.Add([]byte{0, 0, 3, 1, 2, 0}, []byte("{\"f\":1}\x00PAYLOAD\x00tail"))
	f.Add([]byte{1, 1, 2, 0, 1}, []byte("\x00\x00raw\x00"))
	f.Add([]byte{0, 9, 4, 2, 2, 2, 2}, bytes.Repeat([]byte("0123456789abcdef"), 300))
	f.Add([]byte{1, 0, 1, 3}, []byte{})
	st := NewStats("FuzzC18")
	sizes := []int{1, 2, 100, 4095, 4096, 4097, 10000}
	f.Fuzz(func(t *testing.T, ctl []byte, tail []byte) {
		if len(ctl) < 3 || len(ctl) > 16 || len(tail) > 20000 {
			return
		}
		c := C18Case{Side: []string{"handler", "client"}[int(ctl[0])%2], Transport: "pipe", Tail: tail}
		if ctl[1] > 0 {
			c.Cuts = []int{int(ctl[1]) * 17}
		}
		for _, b := range ctl[2:] {
			if b%3 == 0 {
				c.Ops = append(c.Ops, ReadOp{Kind: "readbytes"})
			} else {
				c.Ops = append(c.Ops, ReadOp{Kind: "read", N: sizes[int(b)%len(sizes)]})
			}
		}
		if err := Guard(func() error { return checkC18(c, st) }); err != nil {
			SaveFailing("C18", "C18", c, err.Error())
			t.Fatalf("C18 violated: %v", err)
		}
	})
}
