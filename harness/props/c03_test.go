package props

// C03 Call and reply parameters survive the round trip unchanged, on every transport.
// (also provides the session generator shared with C02 and C12)

import (
	"encoding/json"
	"fmt"
	"regexp"
	"strings"
	"testing"

	"pgregory.net/rapid"
)

var e2eTransports = []string{"pipe", "unixfs", "unixabs", "tcp", "bridge"}

// genDoc draws a JSON object; sizeClass picks documents around the reader's buffer size or large ones.
func genDoc(t *rapid.T, label string) json.RawMessage {
	switch rapid.IntRange(0, 19).Draw(t, label+"size") {
	case 0: // straddles the 4096-byte bufio boundary
		n := rapid.IntRange(3900, 4200).Draw(t, label+"n")
		return json.RawMessage(`{"pad":` + BigString(n) + `,"n":12345678901234567890123}`)
	case 1:
		n := rapid.SampledFrom([]int{8192, 65536, 70000}).Draw(t, label+"n")
		return json.RawMessage(`{"pad":` + BigString(n) + `}`)
	case 2:
		if Thorough() && rapid.IntRange(0, 9).Draw(t, label+"huge") == 0 {
			return json.RawMessage(`{"pad":` + BigString(rapid.SampledFrom([]int{1 << 20, 3 << 20}).Draw(t, label+"n")) + `}`)
		}
		return json.RawMessage(`{}`)
	case 3: // wide
		var sb strings.Builder
		sb.WriteString("{")
		n := rapid.IntRange(50, 400).Draw(t, label+"wide")
		for i := 0; i < n; i++ {
			if i > 0 {
				sb.WriteString(",")
			}
			fmt.Fprintf(&sb, `"k%d":%s`, i, numberSpellings[i%len(numberSpellings)])
		}
		sb.WriteString("}")
		return json.RawMessage(sb.String())
	case 4: // deep
		d := rapid.IntRange(10, 60).Draw(t, label+"deep")
		return json.RawMessage(`{"d":` + strings.Repeat(`[{"x":`, d) + `null` + strings.Repeat(`}]`, d) + `}`)
	default:
		return json.RawMessage(DefaultJSON.Object(t, 1))
	}
}

// genE2EStep draws one client step together with the handler script it carries.
func genE2EStep(t *rapid.T, ifaces []string, id int, errorsOften bool) Step {
	st := Step{API: "send"}
	kind := rapid.IntRange(0, 12).Draw(t, "stepkind")
	if kind == 12 { // a more-sequence whose handler fails after k replies: they must still arrive, then the connection ends
		st.More = true
		sp := ScriptParams{Conn: 0, ID: id, Script: []Op{}}
		for k := rapid.IntRange(1, 4).Draw(t, "kfail"); k > 0; k-- {
			sp.Script = append(sp.Script, Op{Op: "reply", Continues: true, P: genDoc(t, "fp")})
		}
		sp.Script = append(sp.Script, Op{Op: "fail", S: rapid.SampledFrom(failKinds).Draw(t, "failkind")})
		b, _ := json.Marshal(sp)
		st.Params = b
		st.Method = rapid.SampledFrom(ifaces).Draw(t, "iface") + ".Dies"
		return st
	}
	if kind == 0 { // built-in / unknown targets
		st.Method = rapid.SampledFrom([]string{"org.varlink.service.GetInfo", "org.varlink.service.Nope", "no.such.Iface.M", "NoDots", "org.varlink.service.GetInterfaceDescription"}).Draw(t, "builtin")
		if rapid.Bool().Draw(t, "viacall") {
			st.API = "call"
		}
		if strings.HasSuffix(st.Method, "GetInterfaceDescription") {
			st.Params = jsonObj("interface", rapid.SampledFrom(append([]string{"nope"}, ifaces...)).Draw(t, "descif"))
		}
		return st
	}
	sp := ScriptParams{Conn: 0, ID: id, Script: []Op{}}
	if rapid.IntRange(0, 2).Draw(t, "pad") != 0 {
		sp.Pad = genDoc(t, "pad")
	}
	final := func() Op {
		r := rapid.IntRange(0, 9).Draw(t, "final")
		if errorsOften {
			r = rapid.IntRange(3, 12).Draw(t, "finalE")
		}
		switch {
		case r <= 5:
			op := Op{Op: "reply"}
			if rapid.IntRange(0, 4).Draw(t, "np") != 0 {
				op.P = genDoc(t, "rp")
			}
			if rapid.IntRange(0, 9).Draw(t, "gov") == 0 {
				op.Go = rapid.SampledFrom([]string{"struct", "ptr", "named", "map", "typed"}).Draw(t, "govkind")
				op.P = GoValueJSON(op.Go)
			}
			return op
		case r <= 9:
			op := Op{Op: "error", Name: genErrorName(t)}
			if rapid.IntRange(0, 3).Draw(t, "np") != 0 {
				op.P = genDoc(t, "ep")
			}
			if rapid.IntRange(0, 5).Draw(t, "gov") == 0 {
				// the handler passes a typed Go value (an empty struct in its various guises, a tagged struct) rather than raw JSON
				op.Go = rapid.SampledFrom([]string{"struct", "ptr", "named", "map", "typed"}).Draw(t, "govkind")
				op.P = GoValueJSON(op.Go)
			}
			return op
		default:
			return Op{Op: rapid.SampledFrom([]string{"ifnotfound", "methodnotfound", "notimpl", "invalidparam"}).Draw(t, "helper"),
				S: rapid.SampledFrom([]string{"x", "", "a.b.C", "é\"\\\x00<>& ", "org.varlink.service", strings.Repeat("long", 300)}).Draw(t, "hs")}
		}
	}
	switch {
	case kind <= 3: // Connection.Call: exactly one emitted frame
		st.API = "call"
		op := final()
		for op.Op == "error" && ErrorNameClass(op.Name) != "accept" {
			op = Op{Op: "reply", P: genDoc(t, "rp2")}
		}
		sp.Script = append(sp.Script, op)
	case kind <= 7: // more-sequence
		st.More = true
		k := rapid.IntRange(0, 6).Draw(t, "k")
		if rapid.IntRange(0, 15).Draw(t, "longseq") == 0 {
			k = rapid.IntRange(20, 60).Draw(t, "klong")
			if Thorough() {
				k = rapid.IntRange(100, 500).Draw(t, "kvlong")
			}
		}
		for i := 0; i < k; i++ {
			op := Op{Op: "reply", Continues: true}
			if rapid.IntRange(0, 5).Draw(t, "np") != 0 {
				if k > 8 {
					op.P = json.RawMessage(fmt.Sprintf(`{"i":%d,"v":%s}`, i, numberSpellings[i%len(numberSpellings)]))
				} else {
					op.P = genDoc(t, "cp")
				}
			}
			sp.Script = append(sp.Script, op)
		}
		if rapid.IntRange(0, 9).Draw(t, "nofinal") != 0 {
			sp.Script = append(sp.Script, final())
		} else {
			// a sequence that never sends its final reply is legal for the service; the client then must not wait
			sp.Script = append(sp.Script, Op{Op: "reply", P: json.RawMessage(`{"end":true}`)})
		}
	case kind == 8: // oneway
		st.Oneway = true
		sp.Script = append(sp.Script, final())
	case kind == 9: // upgrade
		st.API = "upgrade"
		st.Upgrade = true
		op := Op{Op: "reply", P: genDoc(t, "up")}
		sp.Script = append(sp.Script, op)
	case kind == 10: // plain send with refused attempts around the real reply
		sp.Script = append(sp.Script, Op{Op: "reply", Continues: true, P: json.RawMessage(`{"refused":1}`)}, Op{Op: "error", Name: "NoDot"}, final())
	default: // plain send
		sp.Script = append(sp.Script, final())
	}
	b, _ := json.Marshal(sp)
	st.Params = b
	st.Decoded = rapid.IntRange(0, 2).Draw(t, "decoded") == 0
	st.Method = rapid.SampledFrom(ifaces).Draw(t, "iface") + "." + rapid.SampledFrom([]string{"M", "Ping", "x", "GetInfo"}).Draw(t, "meth")
	return st
}

func genE2ECase(t *rapid.T, origin string, errorsOften bool) E2ECase {
	c := E2ECase{Ifaces: genIfaces(t), Origin: origin}
	switch r := rapid.IntRange(0, 19).Draw(t, "transport"); {
	case r < 8:
		c.Transport = "pipe"
	case r < 11:
		c.Transport = "unixfs"
	case r < 14:
		c.Transport = "unixabs"
	case r < 17:
		c.Transport = "tcp"
	default:
		c.Transport = "bridge"
	}
	n := rapid.IntRange(1, 6).Draw(t, "nsteps")
	for i := 0; i < n; i++ {
		c.Steps = append(c.Steps, genE2EStep(t, c.Ifaces, i, errorsOften))
	}
	return c
}

var bigIntRe = regexp.MustCompile(`[0-9]{17,}|[eE][+-]?[0-9]|\.[0-9]`)

func hasHardNumber(b []byte) bool { return bigIntRe.Match(b) }

func checkC03(c E2ECase, st *Stats) error {
	sanitizeDontCare(&c, false) // error names with an empty <Name> part are C12's don't-care subject
	out, err := ExecE2E(c, protoBound)
	nt := false
	for _, s := range c.Steps {
		if hasHardNumber(s.Params) || hasHardJSON(string(s.Params)) {
			nt = true
		}
	}
	if out != nil && out.Continues >= 2 {
		nt = true
	}
	labels := []string{"transport:" + c.Transport}
	for _, s := range c.Steps {
		labels = append(labels, "api:"+s.API)
		if s.Decoded {
			labels = append(labels, "params:decoded-go-value")
		}
	}
	if out != nil {
		st.Count("comparisons", int64(out.Comparisons))
		st.Count("replies-received", int64(out.Replies))
		st.Count("continues-replies", int64(out.Continues))
		st.Count("error-replies", int64(out.Errors))
	}
	st.Case(HashOf(c), nt, func() interface{} { return c }, dedupe(labels)...)
	return err
}

func dedupe(in []string) []string {
	seen := map[string]bool{}
	var out []string
	for _, s := range in {
		if !seen[s] {
			seen[s] = true
			out = append(out, s)
		}
	}
	return out
}

var propC03 = Register(Prop[E2ECase]{ID: "C03", Name: "C03", Pending: true, Check: checkC03})

func TestC03Rapid(t *testing.T) {
	p := propC03
	p.Gen = func(t *rapid.T) E2ECase { return genE2ECase(t, "C03", false) }
	RunRapid(t, p, "C03Rapid")
}

// TestC03Matrix: every transport x every API x a fixed list of hard documents (bounded-exhaustive
// over the finite dimensions), so that no cell of the transport table depends on the random draw.
func TestC03Matrix(t *testing.T) {
	docs := []string{`{}`, `{"a":null}`, `{"n":9007199254740993,"m":-9223372036854775808,"big":12345678901234567890123,"e":1e400,"f":0.10,"z":-0}`,
		`{"s":"\u0000\"\\\/\b\f\n\r\t<>&  é😀😀"}`, `{"nested":{"a":[1,[2,[3,{"b":{}}]]],"e":[]}}`,
		`{"pad":` + BigString(4090) + `}`, `{"pad":` + BigString(70000) + `}`}
	type cell struct {
		tr, api string
		doc     int
		decoded bool
	}
	var cells []cell
	for _, tr := range e2eTransports {
		for _, api := range []string{"call", "send", "more", "upgrade", "oneway"} {
			for d := range docs {
				cells = append(cells, cell{tr, api, d, d%2 == 1})
			}
		}
	}
	shard, nshards := Shard()
	i := 0
	next := func() (E2ECase, bool) {
		for i < len(cells) {
			k := i
			i++
			if k%nshards != shard {
				continue
			}
			ce := cells[k]
			doc := json.RawMessage(docs[ce.doc])
			sp := ScriptParams{Conn: 0, ID: k, Pad: doc, Script: []Op{}}
			st := Step{API: "send", Method: "x.y.M", Decoded: ce.decoded}
			switch ce.api {
			case "call":
				st.API = "call"
				sp.Script = []Op{{Op: "reply", P: doc}}
			case "send":
				sp.Script = []Op{{Op: "reply", P: doc}}
			case "more":
				st.More = true
				sp.Script = []Op{{Op: "reply", Continues: true, P: doc}, {Op: "reply", Continues: true}, {Op: "reply", Continues: true, P: doc}, {Op: "reply", P: doc}}
			case "upgrade":
				st.API, st.Upgrade = "upgrade", true
				sp.Script = []Op{{Op: "reply", P: doc}}
			case "oneway":
				st.Oneway = true
				sp.Script = []Op{{Op: "reply", P: doc}}
			}
			b, _ := json.Marshal(sp)
			st.Params = b
			follow := Step{API: "call", Method: "x.y.After", Params: json.RawMessage(`{"conn":0,"id":-1,"script":[{"op":"error","name":"x.y.E","p":` + docs[ce.doc] + `}]}`)}
			return E2ECase{Ifaces: []string{"x.y"}, Transport: ce.tr, Steps: []Step{st, follow}, Origin: "C03Matrix"}, true
		}
		return E2ECase{}, false
	}
	RunCases(t, propC03, "C03Matrix", true, next)
}
