package props

// C09 IDL parser is total: every input yields a tree or an error.

import (
	"bytes"
	"fmt"
	"os"
	"path/filepath"
	"strings"
	"testing"
	"time"

	"github.com/varlink/go/varlink/idl"
	"pgregory.net/rapid"
)

// BytesCase is an arbitrary parser input.
type BytesCase struct {
	B       []byte `json:"b"`       // the input (base64 in JSON)
	Preview string `json:"preview"` // lossy rendering for readers
	Origin  string `json:"origin"`  // how it was produced
	Prefix  bool   `json:"prefix"`  // strict prefix of a valid description
}

func mkBytesCase(b []byte, origin string, prefix bool) BytesCase {
	return BytesCase{B: b, Preview: Preview(b), Origin: origin, Prefix: prefix}
}

var grammarBytes = func() [256]bool {
	var t [256]bool
	for _, c := range []byte("abcdefghijklmnopqrstuvwxyzABCDEFGHIJKLMNOPQRSTUVWXYZ0123456789_.-()[]?:,># \t\r\n") {
		t[c] = true
	}
	return t
}()

func hasNonGrammarByte(b []byte) bool {
	for _, c := range b {
		if !grammarBytes[c] {
			return true
		}
	}
	return false
}

func checkC09(c BytesCase, st *Stats) error {
	var tree *idl.IDL
	var err error
	var perr error
	Watched(10*time.Second, func() { SaveFailing("C09", "C09", c, "hang: idl.New did not return within the watchdog bound") }, func() {
		perr = Guard(func() error {
			tree, err = idl.New(string(c.B))
			return nil
		})
	})
	nt := c.Prefix || hasNonGrammarByte(c.B)
	lab := "rejected"
	if perr == nil && err == nil {
		lab = "accepted"
	}
	st.Case(HashOf(c.B), nt, func() interface{} { return c }, "origin:"+c.Origin, lab)
	if perr != nil {
		return fmt.Errorf("idl.New panicked on %d-byte input %q: %v", len(c.B), c.Preview, perr)
	}
	if (tree == nil) == (err == nil) {
		return fmt.Errorf("idl.New returned tree=%v err=%v (want exactly one) on %q", tree != nil, err, c.Preview)
	}
	return nil
}

var propC09 = Register(Prop[BytesCase]{ID: "C09", Name: "C09", Check: checkC09})

func genC09(t *rapid.T) BytesCase {
	switch rapid.IntRange(0, 7).Draw(t, "origin") {
	case 7: // reference structures: a few type names defined in terms of each other (rings, self-reference, dangling
		// names, through every type constructor), then used under every constructor - whatever follows references must end
		names := []string{"A", "B", "C", "Dd", "string", "Undefined"}
		ref := func(label string) string {
			n := rapid.SampledFrom(names).Draw(t, label)
			tmpl := rapid.SampledFrom([]string{"%s", "%s", "?%s", "[]%s", "[string]%s", "(x: %s)", "(x: ?%s, y: []%s)", "?[]%s", "[]?%s", "? %s"}).Draw(t, label+"c")
			return strings.ReplaceAll(tmpl, "%s", n)
		}
		var sb strings.Builder
		sb.WriteString("interface a.b\n")
		for k := rapid.IntRange(1, 5).Draw(t, "ntypes"); k > 0; k-- {
			fmt.Fprintf(&sb, "type %s %s\n", rapid.SampledFrom(names[:4]).Draw(t, "tname"), ref("rhs"))
		}
		for k := rapid.IntRange(0, 3).Draw(t, "nuses"); k > 0; k-- {
			r := ref("use")
			switch rapid.IntRange(0, 2).Draw(t, "ukind") {
			case 0:
				fmt.Fprintf(&sb, "method F%d(x: %s) -> (y: %s)\n", k, r, r)
			case 1:
				fmt.Fprintf(&sb, "error E%d (x: %s)\n", k, r)
			default:
				fmt.Fprintf(&sb, "method G%d() -> (y: %s)\n", k, r)
			}
		}
		return mkBytesCase([]byte(sb.String()), "reference-structure", false)
	case 0: // random bytes incl. NUL and invalid UTF-8
		b := rapid.SliceOfN(rapid.Byte(), 0, 200).Draw(t, "bytes")
		return mkBytesCase(b, "random-bytes", false)
	case 1: // header + random bytes
		b := rapid.SliceOfN(rapid.Byte(), 0, 100).Draw(t, "bytes")
		return mkBytesCase(append([]byte("interface a.b\n"), b...), "header+bytes", false)
	case 2: // token soup
		n := rapid.IntRange(0, 12).Draw(t, "n")
		var sb strings.Builder
		if rapid.Bool().Draw(t, "hdr") {
			sb.WriteString("interface a.b\n")
		}
		for i := 0; i < n; i++ {
			sb.WriteString(rapid.SampledFrom(MutAlphabet).Draw(t, "tok"))
			if rapid.Bool().Draw(t, "sp") {
				sb.WriteString(" ")
			}
		}
		return mkBytesCase([]byte(sb.String()), "token-soup", false)
	case 3: // truncation of a random valid description
		i := GenIface(t, 6)
		s := Render(i, RapidLayout{T: t, EOL: "\n"})
		if len(s) == 0 {
			return mkBytesCase(nil, "truncation", true)
		}
		cut := rapid.IntRange(0, len(s)-1).Draw(t, "cut")
		return mkBytesCase([]byte(s[:cut]), "truncation", true)
	case 4: // mutant
		i := GenIface(t, 4)
		s := GenMutant(t, Tokens(i), RapidLayout{T: t, EOL: "\n"})
		return mkBytesCase([]byte(s), "mutant", false)
	case 5: // pathological nesting
		if rapid.Bool().Draw(t, "balanced") {
			// well-formed deep nesting: the description is valid, whatever walks the finished tree must cope with the depth
			pair := rapid.SampledFrom([][2]string{{"(a:", ")"}, {"(a: int, b:", ")"}, {"(x: string, a:", ", z: bool)"}, {"?[]", ""}, {"[string]", ""}, {"[]", ""}, {"[](a:", ")"}, {"?(a:", ")"}}).Draw(t, "pair")
			n := rapid.SampledFrom([]int{1, 8, 25, 32, 40, 64, 100, 300, 1000, 3000}).Draw(t, "depth")
			if n*(len(pair[0])+len(pair[1])) > 20000 {
				n = 20000 / (len(pair[0]) + len(pair[1]))
			}
			nest := strings.Repeat(pair[0], n) + "int" + strings.Repeat(pair[1], n)
			var sb strings.Builder
			sb.WriteString("interface a.b\n")
			switch rapid.IntRange(0, 3).Draw(t, "where") {
			case 0:
				sb.WriteString("type T (f: " + nest + ")\nmethod F() -> ()\n")
			case 1:
				sb.WriteString("method F(a: " + nest + ") -> ()\n")
			case 2:
				sb.WriteString("method F() -> (b: " + nest + ")\n")
			default:
				sb.WriteString("method F() -> ()\nerror E (a: " + nest + ")\n")
			}
			return mkBytesCase([]byte(sb.String()), "balanced-nesting", false)
		}
		unit := rapid.SampledFrom([]string{"(", "?[]", "[string]", "?", "[]", "(a:", "((", "#", "x", "(a,"}).Draw(t, "unit")
		n := rapid.SampledFrom([]int{1, 10, 100, 1000, 5000, 20000}).Draw(t, "n")
		if n*len(unit) > 60000 {
			n = 60000 / len(unit)
		}
		pre := rapid.SampledFrom([]string{"interface a.b\nmethod F(a:", "interface a.b\ntype T ", "interface a.b\nerror E ", "interface a.b\nmethod F()->", ""}).Draw(t, "pre")
		return mkBytesCase([]byte(pre+strings.Repeat(unit, n)), "nesting", false)
	default: // a comment that ends at end of input, in every position
		i := GenIface(t, 3)
		s := Render(i, RapidLayout{T: t, EOL: "\n"})
		cut := rapid.IntRange(0, len(s)).Draw(t, "cut")
		tail := rapid.SampledFrom([]string{"#", "# x", "#x", "\n#", " #", "#\r", "# \x00"}).Draw(t, "tail")
		return mkBytesCase([]byte(s[:cut]+tail), "comment-at-eof", true)
	}
}

func TestC09Rapid(t *testing.T) {
	p := propC09
	p.Gen = genC09
	RunRapid(t, p, "C09Rapid")
}

// TestC09Trunc: every truncation (every byte offset) of the enumerated descriptions
// under the fixed layouts. Sharded; the quick tier visits a stride of the trees.
func TestC09Trunc(t *testing.T) {
	shard, nshards := Shard()
	stride := 1
	maxNodes := 3
	if !Thorough() {
		stride = 97
	}
	var cur *Iface
	var texts []string
	ti, off := 0, 0
	done := false
	trees := make(chan *Iface, 64)
	go func() {
		EnumIfaces(maxNodes, func(idx int, i *Iface) bool {
			if idx%stride == 0 && (idx/stride)%nshards == shard {
				trees <- i
			}
			return true
		})
		close(trees)
	}()
	next := func() (BytesCase, bool) {
		for {
			if done {
				return BytesCase{}, false
			}
			if cur == nil || ti >= len(texts) {
				i, ok := <-trees
				if !ok {
					done = true
					return BytesCase{}, false
				}
				cur = i
				i.DocMode = "block"
				i.Doc = []string{"doc"}
				for k := range i.Members {
					i.Members[k].DocMode = "block"
					i.Members[k].Doc = []string{"d"}
				}
				texts = texts[:0]
				for l := FixedLayout(0); l < NumFixedLayouts; l++ {
					if l == LayoutSpaced {
						continue
					}
					texts = append(texts, Render(i, l))
				}
				ti, off = 0, 0
			}
			s := texts[ti]
			if off > len(s) {
				ti++
				off = 0
				continue
			}
			c := mkBytesCase([]byte(s[:off]), "enum-truncation", off < len(s))
			off++
			return c, true
		}
	}
	RunCases(t, propC09, "C09Trunc", stride == 1 && nshards == 1, next)
}

// FuzzC09 is the coverage-guided target (thorough tier only); the oracle is inside.
func FuzzC09(f *testing.F) {
	for _, s := range fuzzSeedsIDL() {
		f.Add([]byte(s))
	}
	st := NewStats("FuzzC09")
	f.Fuzz(func(t *testing.T, b []byte) {
		if len(b) > 65536 {
			return
		}
		c := mkBytesCase(b, "fuzz", false)
		if err := checkC09(c, st); err != nil {
			SaveFailing("C09", "C09", c, err.Error())
			t.Fatalf("C09 violated: %v", err)
		}
	})
}

// fuzzSeedsIDL: the repository's own parser test inputs plus hostile constants.
func fuzzSeedsIDL() []string {
	seeds := []string{
		"#", "#\n", "# x", "(", "?", "??", "[int]", "->", "error E (", "interface a.b\n#",
		"interface a.b\nmethod F()->()", "interface a.b\nmethod F()->()\n#\ngarbage",
		"interface a.b\nerror E\nmethod F(a: ?[](b: [string]int, c: (x, y))) -> ()\n",
		"interface a.b\ntype T (a: int)\nmethod F(t: T) -> (t: ?T)\nerror E (t: []T)\n# end",
		"interface a.b\ntype A A\ntype B C\ntype C ?B\nmethod F(x: ?A, y: []B) -> (z: [string]C)\n",
		"interface a.b\n# doc\nerror E\n\n# d\nerror F\nmethod G()->()\n",
	}
	// inputs from the repository's idl_test.go and generator_test.go (string literals)
	for _, f := range []string{"/repo/varlink/idl/idl_test.go", "/repo/cmd/varlink-go-interface-generator/generator_test.go",
		"/repo/cmd/varlink-go-certification/orgvarlinkcertification/org.varlink.certification.varlink"} {
		b, err := os.ReadFile(f)
		if err != nil {
			continue
		}
		if filepath.Ext(f) == ".varlink" {
			seeds = append(seeds, string(b))
			continue
		}
		for _, part := range bytes.Split(b, []byte("\"")) {
			if bytes.HasPrefix(part, []byte("interface")) {
				s := strings.NewReplacer(`\n`, "\n", `\t`, "\t").Replace(string(part))
				seeds = append(seeds, s)
			}
		}
		for _, part := range bytes.Split(b, []byte("`")) {
			if bytes.Contains(part, []byte("\ninterface ")) {
				seeds = append(seeds, string(part))
			}
		}
	}
	return seeds
}

func TestReplay(t *testing.T) { RunReplay(t, envInt("VERIF_REPLAY_REPEAT", 1)) }

// TestC09Bytes: every byte value inserted at, and substituted for, every position of a few valid descriptions
// (bounded-exhaustive): the place where a parser meets a byte it has no class for.
func TestC09Bytes(t *testing.T) {
	bases := []string{
		"interface a.b\nmethod F(a: int) -> (b: ?[]string)\n",
		"# doc\ninterface a.b\n\ntype T (x: [string]int, y: (p, q))\n# d\nmethod F() -> ()\nerror E (why: T)\n",
		"interface a.b\r\nmethod F()->()\r\nerror E\r\n",
		"interface xn--a.b-c\ntype A B\nmethod Fx9(a_b: ?A, c: [](d: B)) -> ()\n",
	}
	shard, nshards := Shard()
	bi, pos, val, mode, n := 0, 0, 0, 0, 0
	next := func() (BytesCase, bool) {
		for bi < len(bases) {
			b := bases[bi]
			if pos > len(b) {
				bi, pos = bi+1, 0
				continue
			}
			var out string
			ok := true
			if mode == 0 {
				out = b[:pos] + string([]byte{byte(val)}) + b[pos:]
			} else if pos < len(b) {
				out = b[:pos] + string([]byte{byte(val)}) + b[pos+1:]
			} else {
				ok = false
			}
			mode++
			if mode == 2 {
				mode = 0
				val++
				if val == 256 {
					val = 0
					pos++
				}
			}
			if !ok {
				continue
			}
			n++
			if n%nshards != shard {
				continue
			}
			return mkBytesCase([]byte(out), "byte-edit", false), true
		}
		return BytesCase{}, false
	}
	RunCases(t, propC09, "C09Bytes", true, next)
}
