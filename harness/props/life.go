package props

// Lifecycle executor shared by C14 (shutdown, drain, reuse) and C15 (idle timeout): a generated
// history of events is applied to one real Service driven through the FakeListener, whose every
// Accept outcome (connection, timeout expiry, closed) is ordered by the harness. The model is the
// small automaton kept in lifeRun: serving?, set of open connections, shutdown issued?.

import (
	"context"
	"fmt"
	"net"
	"os"
	"sync/atomic"
	"time"

	"github.com/varlink/go/varlink"
)

// LOp is one event of a lifecycle history.
type LOp struct {
	Op   string `json:"op"`             // connect call close abort failcall expiry shutdown shutdown-race shutdown-early cancel bind-again serve late-connect accept-fault
	Conn int    `json:"conn,omitempty"` // index into the open connections (modulo their number)
}

// LifeCase is a lifecycle history.
type LifeCase struct {
	Timeout bool  `json:"timeout"` // serve with a non-zero idle timeout (expiries are injected, never real)
	Ops     []LOp `json:"ops"`
}

type lifeConn struct {
	c       net.Conn
	id      int
	partial bool // a prefix of a frame has been sent: the next complete call would be garbage
}

type lifeRun struct {
	svc         *varlink.Service
	fake        *FakeListener
	done        chan error
	cancel      context.CancelFunc
	serving     bool // the serving call is running and has not been told to stop
	draining    bool // shutdown issued, serving call must return once open is empty
	wantNil     bool // the return value must be nil
	open        []*lifeConn
	nextID      int
	bound       time.Duration
	timeout     time.Duration
	ctxDeadline bool
	facts       map[string]int
	log         *InvLog
	cycles      int
	stuck       error // a harness call into the service did not return
}

var rebindCounter int64

var lifeScriptFail = []byte(`{"method":"x.y.Fail","parameters":{"conn":0,"id":0,"script":[{"op":"fail"}]}}`)

// api runs one of the harness's own calls into the service under the bound: such a call only takes the
// service's lock for an instant, so one that does not return means a lock left held.
func (r *lifeRun) api(what string, f func()) error {
	if r.stuck != nil {
		return r.stuck
	}
	done := make(chan struct{})
	go func() { f(); close(done) }()
	select {
	case <-done:
		return nil
	case <-time.After(r.bound):
		r.stuck = fmt.Errorf("%s did not return within %v: the service's lock is still held by an earlier call", what, r.bound)
		return r.stuck
	}
}

func (r *lifeRun) shutdown() {
	r.api("Shutdown", func() { r.svc.Shutdown() })
}

func (r *lifeRun) active() int64 {
	n := int64(-999)
	r.api("reading the connection count", func() { n = activeConns(r.svc) })
	return n
}

func (r *lifeRun) listener() net.Listener {
	var l net.Listener
	r.api("GetListener", func() { l, _ = r.svc.GetListener() })
	return l
}

func (r *lifeRun) bind(addr string) error {
	var err error
	if aerr := r.api("Bind", func() { err = r.svc.Bind(context.Background(), addr) }); aerr != nil {
		return aerr
	}
	return err
}

func (r *lifeRun) setListener(l net.Listener) {
	r.api("installing the listener", func() { r.svc.VerifSetListener(l) })
}

// serveCtx: the context of a serving call; in half of the histories it carries a deadline that lies twenty minutes
// ahead (it never passes during a case): a deadline of the context is not an idle period.
func (r *lifeRun) serveCtx() (context.Context, context.CancelFunc) {
	if !r.ctxDeadline {
		return context.WithCancel(context.Background())
	}
	parent, pcancel := context.WithTimeout(context.Background(), 20*time.Minute)
	ctx, cancel := context.WithCancel(parent)
	r.facts["serving-context-has-deadline"]++
	return ctx, func() { cancel(); pcancel() }
}

func (r *lifeRun) start() error {
	r.fake = NewFakeListener()
	r.setListener(r.fake)
	ctx, cancel := r.serveCtx()
	r.cancel = cancel
	r.done = make(chan error, 1)
	go func(d chan error) { d <- r.svc.DoListen(ctx, r.timeout) }(r.done)
	if !r.waitBlocked() {
		return fmt.Errorf("DoListen did not reach Accept within %v", r.bound)
	}
	r.serving, r.draining, r.wantNil = true, false, false
	r.cycles++
	return nil
}

func (r *lifeRun) waitBlocked() bool {
	dl := time.Now().Add(r.bound)
	for !r.fake.Blocked() {
		if time.Now().After(dl) {
			return false
		}
		time.Sleep(50 * time.Microsecond)
	}
	return true
}

func (r *lifeRun) waitActive(n int) error {
	dl := time.Now().Add(r.bound)
	for {
		got := r.active()
		if got == int64(n) {
			return nil
		}
		if time.Now().After(dl) {
			return fmt.Errorf("active-connection count is %d, the model has %d open connections (waited %v)", got, n, r.bound)
		}
		time.Sleep(50 * time.Microsecond)
	}
}

func (r *lifeRun) returned() (error, bool) {
	select {
	case e := <-r.done:
		r.done <- e
		return e, true
	default:
		return nil, false
	}
}

func (r *lifeRun) callOn(lc *lifeConn) error {
	lc.c.SetWriteDeadline(time.Now().Add(r.bound))
	frame := append(append([]byte(nil), sentinelFrame...), 0)
	if lc.partial {
		// complete the frame whose prefix is pending: {"method":"org.varlink.serv + ice.GetInfo"}
		frame = append([]byte(`ice.GetInfo"}`), 0)
		lc.partial = false
	}
	if _, err := lc.c.Write(frame); err != nil {
		return fmt.Errorf("open connection #%d: write failed: %v", lc.id, err)
	}
	got, eof, to := readFrames(lc.c, 1, r.bound)
	fr, _ := SplitFrames(got)
	if len(fr) != 1 {
		return fmt.Errorf("open connection #%d is not served: GetInfo got no reply (eof=%v timeout=%v)", lc.id, eof, to)
	}
	return nil
}

// expectEOF: the service must have closed this connection.
func (r *lifeRun) expectEOF(lc *lifeConn, why string) error {
	got, eof, _ := readFrames(lc.c, -1, r.bound)
	if !eof {
		return fmt.Errorf("connection #%d: %s, but the service did not close it within %v (read %d bytes)", lc.id, why, r.bound, len(got))
	}
	return nil
}

func (r *lifeRun) remove(i int) *lifeConn {
	lc := r.open[i]
	r.open = append(r.open[:i], r.open[i+1:]...)
	return lc
}

// awaitReturn: the serving call must return now (all connections ended).
func (r *lifeRun) awaitReturn(timeoutErr bool) error {
	select {
	case e := <-r.done:
		r.serving, r.draining = false, false
		r.cancel()
		if timeoutErr {
			if _, ok := e.(varlink.ServiceTimeoutError); !ok {
				return fmt.Errorf("serving ended by idle timeout returned %v (%T), want ServiceTimeoutError", e, e)
			}
		} else if r.wantNil && e != nil {
			return fmt.Errorf("Shutdown found the service waiting for a connection, but the serving call returned %v instead of nil", e)
		}
		if n := r.active(); n != 0 {
			return fmt.Errorf("the serving call returned while the active-connection count is %d", n)
		}
		if atomic.LoadInt32(&r.fake.CloseN) == 0 {
			return fmt.Errorf("the serving call returned (%v) without releasing the listening endpoint: the listener was never closed", e)
		}
		if l := r.listener(); l != nil {
			return fmt.Errorf("the serving call returned but the service still holds a listener")
		}
		return nil
	case <-time.After(r.bound):
		return fmt.Errorf("the serving call did not return within %v although it was told to stop and every accepted connection has ended", r.bound)
	}
}

func (r *lifeRun) step(op LOp) error {
	err := r.step1(op)
	if r.stuck != nil {
		return r.stuck
	}
	return err
}

func (r *lifeRun) step1(op LOp) error {
	pick := func() int {
		if len(r.open) == 0 {
			return -1
		}
		k := op.Conn % len(r.open)
		if k < 0 {
			k = -k
		}
		return k
	}
	running := r.serving || r.draining
	switch op.Op {
	case "connect":
		if !r.serving {
			return nil
		}
		c := r.fake.Connect()
		lc := &lifeConn{c: c, id: r.nextID}
		r.nextID++
		r.open = append(r.open, lc)
		r.facts["connect"]++
		if err := r.waitActive(len(r.open)); err != nil {
			return err
		}
		if !r.waitBlocked() {
			return fmt.Errorf("after accepting a connection the loop did not return to Accept")
		}
	case "connect-expiry":
		// a connection and an accept-timeout expiry queued back to back: the loop finds the expiry immediately
		// after it has accepted the connection, possibly before that connection's handler has started
		if !r.serving || r.timeout == 0 {
			return nil
		}
		if !r.waitBlocked() {
			return fmt.Errorf("the loop is not waiting in Accept")
		}
		// the loop sits in Accept call number k; it will return the connection, call Accept again (k+1: the
		// expiry), decide, and - if it keeps serving - call Accept a third time (k+2). Only then has the expiry
		// been fully processed (waiting for "queue empty and blocked" would be satisfied one step too early).
		acceptK := atomic.LoadInt32(&r.fake.AcceptN)
		c := r.fake.Connect()
		r.fake.InjectTimeout()
		lc := &lifeConn{c: c, id: r.nextID}
		r.nextID++
		r.open = append(r.open, lc)
		r.facts["connect-expiry"]++
		r.facts["expiry-busy"]++
		dl := time.Now().Add(r.bound)
		for !(r.active() == int64(len(r.open)) && atomic.LoadInt32(&r.fake.AcceptN) >= acceptK+2 && r.fake.Blocked() && r.fake.Pending() == 0) {
			if e, ok := r.returned(); ok {
				return fmt.Errorf("an accept-timeout expiry right after a connection was accepted stopped the service (returned %v) although that connection is open", e)
			}
			if r.fake.IsClosed() {
				return fmt.Errorf("an accept-timeout expiry right after a connection was accepted made the service release its listener (stop serving) although that connection is open")
			}
			if time.Now().After(dl) {
				return fmt.Errorf("after connection + expiry the loop did not settle in Accept with %d accounted connections (count %d)", len(r.open), r.active())
			}
			time.Sleep(50 * time.Microsecond)
		}
		if e, ok := r.returned(); ok {
			return fmt.Errorf("an accept-timeout expiry right after a connection was accepted stopped the service (returned %v) although that connection is open", e)
		}
		return r.callOn(lc)
	case "call":
		k := pick()
		if k < 0 || !running {
			return nil
		}
		r.facts["call"]++
		if r.draining {
			r.facts["call-while-draining"]++
		}
		return r.callOn(r.open[k])
	case "call-partial":
		// a complete call and the beginning of the next one in ONE segment: the reply comes back, the prefix stays
		// buffered inside the service; whatever ends the connection later must still get through
		k := pick()
		if k < 0 || !running {
			return nil
		}
		lc := r.open[k]
		if lc.partial {
			return r.callOn(lc) // a prefix is already pending: complete that frame instead
		}
		r.facts["call-partial"]++
		lc.c.SetWriteDeadline(time.Now().Add(r.bound))
		if _, err := lc.c.Write(append(append(append([]byte(nil), sentinelFrame...), 0), []byte(`{"method":"org.varlink.serv`)...)); err != nil {
			return fmt.Errorf("open connection #%d: write failed: %v", lc.id, err)
		}
		got, eof, to := readFrames(lc.c, 1, r.bound)
		if fr, _ := SplitFrames(got); len(fr) != 1 {
			return fmt.Errorf("open connection #%d is not served: GetInfo got no reply (eof=%v timeout=%v)", lc.id, eof, to)
		}
		lc.partial = true
	case "close", "abort":
		k := pick()
		if k < 0 || !running {
			return nil
		}
		lc := r.remove(k)
		if op.Op == "abort" {
			lc.c.SetWriteDeadline(time.Now().Add(r.bound))
			lc.c.Write([]byte(`{"method":"org.varlink.servi`))
		}
		lc.c.Close()
		r.facts[op.Op]++
		if err := r.waitActive(len(r.open)); err != nil {
			return fmt.Errorf("after client %s of connection #%d: %v", op.Op, lc.id, err)
		}
	case "failcall":
		k := pick()
		if k < 0 || !running {
			return nil
		}
		lc := r.remove(k)
		lc.c.SetWriteDeadline(time.Now().Add(r.bound))
		lc.c.Write(append(append([]byte(nil), lifeScriptFail...), 0))
		err := r.expectEOF(lc, "its handler returned an error")
		lc.c.Close()
		r.facts["failcall"]++
		if err != nil {
			return err
		}
		if err := r.waitActive(len(r.open)); err != nil {
			return fmt.Errorf("after a handler error on connection #%d: %v", lc.id, err)
		}
	case "expiry":
		if !r.serving || r.timeout == 0 {
			return nil
		}
		acceptsBefore := atomic.LoadInt32(&r.fake.AcceptN)
		r.fake.InjectTimeout()
		if len(r.open) == 0 {
			r.facts["expiry-idle"]++
			return r.awaitReturn(true)
		}
		r.facts["expiry-busy"]++
		// must keep serving: the loop comes back to Accept, and open connections are still answered
		dl := time.Now().Add(r.bound)
		for !(atomic.LoadInt32(&r.fake.AcceptN) > acceptsBefore && r.fake.Blocked()) {
			if e, ok := r.returned(); ok {
				return fmt.Errorf("an accept-timeout expiry stopped the service (returned %v) although %d connection(s) are open", e, len(r.open))
			}
			if r.fake.IsClosed() {
				return fmt.Errorf("an accept-timeout expiry made the service release its listener (stop serving) although %d connection(s) are open", len(r.open))
			}
			if time.Now().After(dl) {
				return fmt.Errorf("after an accept-timeout expiry with open connections the loop did not return to Accept")
			}
			time.Sleep(50 * time.Microsecond)
		}
		if e, ok := r.returned(); ok {
			return fmt.Errorf("an accept-timeout expiry stopped the service (returned %v) although %d connection(s) are open", e, len(r.open))
		}
		return r.callOn(r.open[0])
	case "accept-fault":
		// Accept fails with a transient error that is not a timeout while nothing is connected. Whether serving goes on
		// or ends with that error is not specified - but it is not an idle period: no timeout error, with or without a timeout
		if !r.serving || len(r.open) != 0 {
			return nil
		}
		if !r.waitBlocked() {
			return fmt.Errorf("the loop is not waiting in Accept")
		}
		acceptsBefore := atomic.LoadInt32(&r.fake.AcceptN)
		r.fake.InjectTempError()
		r.facts["accept-fault-idle"]++
		for dl := time.Now().Add(r.bound); ; {
			if e, ok := r.returned(); ok {
				if _, isTimeout := e.(varlink.ServiceTimeoutError); isTimeout {
					return fmt.Errorf("a failing Accept (temporary error, not a timeout) made the serving call return the idle-timeout error although no idle period had passed (timeout configured: %v)", r.timeout != 0)
				}
				r.wantNil = false
				return r.awaitReturn(false)
			}
			if atomic.LoadInt32(&r.fake.AcceptN) > acceptsBefore && r.fake.Blocked() {
				return nil // it went back to accepting
			}
			if time.Now().After(dl) {
				return fmt.Errorf("after a failing Accept the loop neither returned nor went back to Accept within %v", r.bound)
			}
			time.Sleep(50 * time.Microsecond)
		}
	case "shutdown", "shutdown-race":
		if !r.serving {
			return nil
		}
		if !r.waitBlocked() {
			return fmt.Errorf("the loop is not waiting in Accept")
		}
		var rc *lifeConn
		if op.Op == "shutdown-race" {
			c, s := net.Pipe()
			r.fake.SetRaceConn(sockLikePipe{s})
			rc = &lifeConn{c: c, id: r.nextID}
			r.nextID++
		}
		r.shutdown()
		r.serving, r.draining, r.wantNil = false, true, true
		r.facts[op.Op]++
		if rc != nil {
			r.open = append(r.open, rc)
			if err := r.waitActive(len(r.open)); err != nil {
				return fmt.Errorf("a connection accepted while Shutdown was closing the listener is not accounted for: %v", err)
			}
		}
		if len(r.open) > 0 {
			r.facts["shutdown-with-open-conns"]++
			// give the loop the chance to get it wrong: wait until it has seen the closed listener
			dl := time.Now().Add(r.bound)
			for r.fake.Blocked() && time.Now().Before(dl) {
				time.Sleep(50 * time.Microsecond)
			}
			time.Sleep(300 * time.Microsecond)
			if e, ok := r.returned(); ok {
				return fmt.Errorf("the serving call returned (%v) after Shutdown although %d accepted connection(s) are still open", e, len(r.open))
			}
			return nil
		}
		return r.awaitReturn(false)
	case "shutdown-early":
		// Shutdown between installing the listener and starting to serve: serving must still end
		if running || r.cycles >= 4 {
			return nil
		}
		r.fake = NewFakeListener()
		r.setListener(r.fake)
		r.shutdown()
		ctx, cancel := r.serveCtx()
		r.cancel = cancel
		r.done = make(chan error, 1)
		go func(d chan error) { d <- r.svc.DoListen(ctx, r.timeout) }(r.done)
		r.cycles++
		r.facts["shutdown-early"]++
		select {
		case <-r.done:
			cancel()
			if n := r.active(); n != 0 {
				return fmt.Errorf("active-connection count %d after a serving call that never accepted anything", n)
			}
			return nil
		case <-time.After(r.bound):
			return fmt.Errorf("Shutdown was issued before serving started; the serving call never returned")
		}
	case "cancel":
		if !running {
			return nil
		}
		r.cancel()
		r.facts["cancel"]++
		for len(r.open) > 0 {
			lc := r.remove(0)
			err := r.expectEOF(lc, "the serving context was cancelled")
			lc.c.Close()
			if err != nil {
				return err
			}
		}
		if err := r.waitActive(0); err != nil {
			return fmt.Errorf("after cancelling the serving context: %v", err)
		}
		if r.serving {
			// the accept loop itself goes on until Shutdown; end the cycle here
			if !r.waitBlocked() {
				return fmt.Errorf("the loop is not waiting in Accept")
			}
			if r.facts["cancel"]%2 == 1 {
				// a client that arrives after the serving context was cancelled, while the listener is still up: it is
				// accepted like any other (and hung up on, its context being dead) - and accounted for like any other
				late := r.fake.Connect()
				lc := &lifeConn{c: late, id: r.nextID}
				r.nextID++
				r.facts["connect-after-cancel"]++
				err := r.expectEOF(lc, "it was accepted under a serving context that is already cancelled")
				late.Close()
				if err != nil {
					return err
				}
				if err := r.waitActive(0); err != nil {
					return fmt.Errorf("after a connection that arrived once the serving context was cancelled: %v", err)
				}
				if !r.waitBlocked() {
					return fmt.Errorf("after a connection that arrived once the serving context was cancelled the loop did not return to Accept")
				}
			}
			r.shutdown()
			r.serving, r.draining, r.wantNil = false, true, true
		}
		return r.awaitReturn(false)
	case "bind-again":
		if !r.serving {
			return nil
		}
		r.facts["bind-during-serving"]++
		err := r.bind(fmt.Sprintf("unix:@verif-bindagain-%d", time.Now().UnixNano()))
		if err == nil {
			if l := r.listener(); l != nil && l != net.Listener(r.fake) {
				l.Close()
			}
			return fmt.Errorf("a second Bind while the service is serving was accepted")
		}
		if l := r.listener(); l != net.Listener(r.fake) {
			return fmt.Errorf("a refused Bind during serving replaced the listener")
		}
		if len(r.open) > 0 {
			return r.callOn(r.open[0])
		}
	case "serve":
		if running || r.cycles >= 4 {
			return nil
		}
		// after serving ended - however it ended - the object must accept a Bind again
		baddr := fmt.Sprintf("unix:@verif-rebind-%d-%d", os.Getpid(), atomic.AddInt64(&rebindCounter, 1))
		if berr := r.bind(baddr); berr != nil {
			return fmt.Errorf("after the serving call returned, Bind(%q) on the same service object is refused: %v", baddr, berr)
		}
		if l := r.listener(); l != nil {
			l.Close()
		}
		if err := r.start(); err != nil {
			return fmt.Errorf("re-serving the same service object: %v", err)
		}
		r.facts["re-serve"]++
		// it must answer
		c := r.fake.Connect()
		lc := &lifeConn{c: c, id: r.nextID}
		r.nextID++
		r.open = append(r.open, lc)
		if err := r.waitActive(len(r.open)); err != nil {
			return err
		}
		return r.callOn(lc)
	case "late-connect":
		if running {
			return nil
		}
		// serving has ended: nothing may be accepted or answered any more
		r.facts["late-connect"]++
		before := atomic.LoadInt32(&r.fake.AcceptN)
		c := r.fake.Connect()
		c.SetWriteDeadline(time.Now().Add(2 * time.Millisecond))
		c.Write(append(append([]byte(nil), sentinelFrame...), 0))
		c.SetReadDeadline(time.Now().Add(2 * time.Millisecond))
		buf := make([]byte, 64)
		n, _ := c.Read(buf)
		c.Close()
		if n > 0 {
			return fmt.Errorf("a connection arriving after Shutdown returned and serving ended was answered")
		}
		if atomic.LoadInt32(&r.fake.AcceptN) != before && r.active() != 0 {
			return fmt.Errorf("a connection arriving after serving ended was accepted")
		}
	}
	// after every step of a draining service: once the last connection is gone the call must return
	if r.draining && len(r.open) == 0 {
		return r.awaitReturn(false)
	}
	return nil
}

// checkDeadlines inspects the fake listener's event log of one serving cycle.
func checkDeadlines(l *FakeListener, timeout time.Duration) string {
	l.mu.Lock()
	defer l.mu.Unlock()
	armed := false
	di := 0
	var prev time.Time
	ai := 0
	for _, e := range l.Events {
		switch e {
		case "deadline":
			if timeout == 0 {
				return "a deadline was set on the listener although the service was started without a timeout"
			}
			d := l.Deadlines[di]
			if di < len(l.DeadlineAt) && timeout >= time.Minute && d.Before(l.DeadlineAt[di].Add(timeout-30*time.Second)) {
				// (the idle period is an hour in these histories; whatever else limits the serving call - a deadline of its
				// context, say - is not an idle period and must not shorten it)
				return fmt.Sprintf("the accept deadline was armed only %v ahead although the idle timeout is %v: the service would report an idle timeout before the listener has been idle for that period", d.Sub(l.DeadlineAt[di]).Round(time.Second), timeout)
			}
			di++
			if d.Before(prev) {
				return fmt.Sprintf("accept deadline moved backwards: %v after %v", d, prev)
			}
			if ai > 0 && ai-1 < len(l.AcceptRet) && !d.After(l.AcceptRet[ai-1]) {
				return "the accept deadline armed after an Accept returned does not lie after that moment (not refreshed)"
			}
			prev = d
			armed = true
		case "accept-enter":
			if timeout != 0 && !armed {
				return "Accept was entered without re-arming the idle deadline first"
			}
			armed = false
			ai++
		}
	}
	return ""
}

// ExecLife runs a lifecycle history; the returned facts feed the non-triviality rules.
// ExecLife runs the case under an overall bound as well: the harness itself calls Bind, Shutdown and
// GetListener, and a change that makes one of them block for ever (a lock left held on an error path)
// must end as a reported failure, not as a check that never finishes.
func ExecLife(c LifeCase, bound time.Duration) (map[string]int, error) {
	type res struct {
		facts map[string]int
		err   error
	}
	var at atomic.Value
	at.Store("start")
	ch := make(chan res, 1)
	go func() {
		f, err := execLife(c, bound, &at)
		ch <- res{f, err}
	}()
	total := time.Duration(len(c.Ops)+4) * 2 * bound * WatchdogScale()
	select {
	case r := <-ch:
		return r.facts, r.err
	case <-time.After(total):
		return map[string]int{}, fmt.Errorf("%s: the harness's own call into the service (Bind, Shutdown, GetListener or the connection count) did not complete within %v - a lock is still held", at.Load(), total)
	}
}

func execLife(c LifeCase, bound time.Duration, at *atomic.Value) (facts map[string]int, err error) {
	bound *= WatchdogScale()
	svc, nerr := varlink.NewService("v", "p", "1", "u")
	if nerr != nil {
		return nil, fmt.Errorf("HARNESS: %v", nerr)
	}
	log := &InvLog{}
	if rerr := svc.RegisterInterface(&ScriptIface{Name: "x.y", Desc: "interface x.y\nmethod X() -> ()\n", Log: log}); rerr != nil {
		return nil, fmt.Errorf("HARNESS: %v", rerr)
	}
	r := &lifeRun{svc: svc, bound: bound, facts: map[string]int{}, log: log}
	if c.Timeout {
		r.timeout = time.Hour
	}
	r.ctxDeadline = len(c.Ops)%2 == 1
	var fakes []*FakeListener
	if err := r.start(); err != nil {
		return r.facts, err
	}
	fakes = append(fakes, r.fake)
	defer func() {
		for _, lc := range r.open {
			lc.c.Close()
		}
		if r.serving || r.draining {
			r.shutdown()
			select {
			case <-r.done:
			case <-time.After(bound):
			}
			r.cancel()
		}
	}()
	for i, op := range c.Ops {
		before := r.fake
		at.Store(fmt.Sprintf("event %d (%s)", i, op.Op))
		if serr := r.step(op); serr != nil {
			return r.facts, fmt.Errorf("event %d (%s): %v", i, op.Op, serr)
		}
		if r.fake != before {
			fakes = append(fakes, r.fake)
		}
	}
	at.Store("wind-down")
	// wind down: close everything, shut down if still serving, the call must return
	for len(r.open) > 0 {
		lc := r.remove(0)
		lc.c.Close()
	}
	if r.serving || r.draining {
		if werr := r.waitActive(0); werr != nil {
			return r.facts, fmt.Errorf("at the end: %v", werr)
		}
		if r.serving {
			if !r.waitBlocked() {
				return r.facts, fmt.Errorf("at the end: the loop is not waiting in Accept")
			}
			r.shutdown()
			r.serving, r.draining, r.wantNil = false, true, true
		}
		if werr := r.awaitReturn(false); werr != nil {
			return r.facts, fmt.Errorf("at the end: %v", werr)
		}
	}
	for _, f := range fakes {
		if d := checkDeadlines(f, r.timeout); d != "" {
			return r.facts, fmt.Errorf("%s", d)
		}
	}
	if left := LibGoroutines(bound / 2); left != "" {
		return r.facts, fmt.Errorf("library goroutines still alive after serving ended:\n%s", left)
	}
	return r.facts, nil
}
