package props

// Executes a ProtoCase (frames per connection, cut plan, optional abort) against a real
// varlink.Service and compares everything observable with ModelConn.

import (
	"bytes"
	"context"
	"encoding/json"
	"errors"
	"fmt"
	"io"
	"net"
	"os"
	"sort"
	"strings"
	"sync"
	"sync/atomic"
	"time"

	"github.com/varlink/go/varlink"
)

const builtinDescMarker = "\x00builtin-description"

// ConnCase is what one client connection sends.
type ConnCase struct {
	Frames  []Blob `json:"frames"`             // complete frames, without the NUL
	Tail    Blob   `json:"tail,omitempty"`     // unterminated trailing bytes
	Cuts    []int  `json:"cuts,omitempty"`     // segment sizes, cycled; empty = one write
	AbortAt int    `json:"abort_at"`           // -1: none; else the client closes after this many bytes
	NoRead  bool   `json:"no_read,omitempty"`  // the client never reads (and then closes)
	PauseAt int    `json:"pause_at,omitempty"` // 1-based index of the segment after which the client pauses (0 = never)
	PauseMS int    `json:"pause_ms,omitempty"`
}

// ProtoCase is a whole scenario.
type ProtoCase struct {
	Ifaces    []string   `json:"ifaces"`
	Conns     []ConnCase `json:"conns"`
	Transport string     `json:"transport"`          // "pipe" (fake listener) | "unix" (abstract socket, Bind+DoListen)
	Probe     bool       `json:"probe"`              // a second, well-behaved connection does GetInfo before/during/after
	IdleEnd   bool       `json:"idle_end,omitempty"` // pipe only: serve with an idle timeout and end by an injected accept-timeout expiry instead of Shutdown
	Origin    string     `json:"origin,omitempty"`
}

func (c ConnCase) stream() []byte {
	var b bytes.Buffer
	for _, f := range c.Frames {
		b.Write(f)
		b.WriteByte(0)
	}
	b.Write(c.Tail)
	return b.Bytes()
}

// Segments cuts stream according to the plan.
func Segments(stream []byte, cuts []int) [][]byte {
	if len(cuts) == 0 {
		return [][]byte{stream}
	}
	var out [][]byte
	k := 0
	huge := len(stream) > 300000 // megabytes in segments of a few bytes would only measure the harness's patience
	for len(stream) > 0 {
		n := cuts[k%len(cuts)]
		k++
		if n <= 0 {
			n = 1
		}
		if huge && n < 512 {
			n += 512
		}
		if n > len(stream) {
			n = len(stream)
		}
		out = append(out, stream[:n])
		stream = stream[n:]
	}
	return out
}

var sentinelFrame = []byte(`{"method":"org.varlink.service.GetInfo"}`)

var unixCounter int64

// protoSvc abstracts the two transports.
type protoSvc struct {
	svc     *varlink.Service
	fake    *FakeListener
	addr    string
	log     *InvLog
	done    chan error
	cancel  context.CancelFunc
	cfg     SvcConfig
	timeout time.Duration
}

func startProtoSvc(ifaces []string, transport string, timeout time.Duration) (*protoSvc, error) {
	ident := [4]string{"verif-vendor", "verif \"product\"", "1.0", "http://verif.example/é"}
	s, err := varlink.NewService(ident[0], ident[1], ident[2], ident[3])
	if err != nil {
		return nil, fmt.Errorf("HARNESS: NewService: %v", err)
	}
	p := &protoSvc{svc: s, log: &InvLog{}, done: make(chan error, 1), timeout: timeout}
	p.cfg = SvcConfig{Ifaces: ifaces, Descs: map[string]string{"org.varlink.service": builtinDescMarker}, Ident: ident}
	for _, n := range ifaces {
		d := "interface " + n + "\nmethod X() -> ()\n"
		p.cfg.Descs[n] = d
		if err := s.RegisterInterface(&ScriptIface{Name: n, Desc: d, Log: p.log}); err != nil {
			return nil, fmt.Errorf("HARNESS: RegisterInterface(%q): %v", n, err)
		}
	}
	ctx, cancel := context.WithCancel(context.Background())
	p.cancel = cancel
	if transport == "unix" {
		p.addr = fmt.Sprintf("@verif-%d-%d-%d", os.Getpid(), time.Now().UnixNano(), atomic.AddInt64(&unixCounter, 1))
		if err := s.Bind(ctx, "unix:"+p.addr); err != nil {
			cancel()
			return nil, fmt.Errorf("HARNESS: Bind: %v", err)
		}
	} else {
		p.fake = NewFakeListener()
		s.VerifSetListener(p.fake)
	}
	go func() { p.done <- s.DoListen(ctx, timeout) }()
	return p, nil
}

func (p *protoSvc) connect() (net.Conn, error) {
	if p.fake != nil {
		return p.fake.Connect(), nil
	}
	var lastErr error
	for dl := time.Now().Add(protoBound); time.Now().Before(dl); {
		c, err := net.Dial("unix", p.addr)
		if err == nil {
			return c, nil
		}
		lastErr = err
		time.Sleep(time.Millisecond)
	}
	return nil, fmt.Errorf("HARNESS: dial %s: %v", p.addr, lastErr)
}

func (p *protoSvc) waitActive(n int64, bound time.Duration) bool {
	dl := time.Now().Add(bound)
	for {
		if activeConns(p.svc) == n {
			return true
		}
		if time.Now().After(dl) {
			return false
		}
		time.Sleep(100 * time.Microsecond)
	}
}

// stop: Shutdown, then DoListen must return nil within the bound.
func (p *protoSvc) stop(bound time.Duration) error {
	if p.fake != nil {
		// make sure the accept loop is waiting for a connection, so that nil is the required result
		dl := time.Now().Add(bound)
		for !p.fake.Blocked() && time.Now().Before(dl) {
			time.Sleep(50 * time.Microsecond)
		}
		if !p.fake.Blocked() {
			return fmt.Errorf("the accept loop is not waiting in Accept %v after all connections ended", bound)
		}
	}
	p.svc.Shutdown()
	defer p.cancel()
	select {
	case err := <-p.done:
		if err != nil {
			return fmt.Errorf("DoListen returned %v after Shutdown", err)
		}
		return nil
	case <-time.After(bound):
		return fmt.Errorf("DoListen did not return within %v after Shutdown although all connections are gone", bound)
	}
}

// stopByTimeout: all connections are gone, so the next accept-timeout expiry must end serving with ServiceTimeoutError.
func (p *protoSvc) stopByTimeout(bound time.Duration) error {
	dl := time.Now().Add(bound)
	for !p.fake.Blocked() && time.Now().Before(dl) {
		time.Sleep(50 * time.Microsecond)
	}
	p.fake.InjectTimeout()
	defer p.cancel()
	select {
	case err := <-p.done:
		if _, ok := err.(varlink.ServiceTimeoutError); !ok {
			return fmt.Errorf("idle service with no connection left: accept-timeout expiry made DoListen return %v, want ServiceTimeoutError", err)
		}
		return nil
	case <-time.After(bound):
		p.svc.Shutdown()
		return fmt.Errorf("DoListen did not return within %v after an accept-timeout expiry although all connections are gone (a connection is still accounted as open)", bound)
	}
}

// readFrames reads until EOF or until want complete frames were seen (want < 0: until EOF).
func readFrames(conn net.Conn, want int, bound time.Duration) (got []byte, eof bool, timedOut bool) {
	buf := make([]byte, 65536)
	conn.SetReadDeadline(time.Now().Add(bound))
	nul := 0
	for {
		if want >= 0 && nul >= want {
			return got, false, false
		}
		n, err := conn.Read(buf)
		for _, b := range buf[:n] {
			if b == 0 {
				nul++
			}
		}
		got = append(got, buf[:n]...)
		if err != nil {
			var ne net.Error
			if errors.As(err, &ne) && ne.Timeout() {
				return got, false, true
			}
			return got, true, false // EOF, closed pipe, reset
		}
	}
}

type connResult struct {
	toEOF    bool // the client read until EOF (not just the expected number of frames)
	got      []byte
	eof      bool
	timedOut bool
	err      error
}

const protoBound = 10 * time.Second

func probeGetInfo(conn net.Conn, cfg SvcConfig, bound time.Duration) error {
	conn.SetWriteDeadline(time.Now().Add(bound))
	if _, err := conn.Write(append(append([]byte(nil), sentinelFrame...), 0)); err != nil {
		return fmt.Errorf("probe connection: write failed: %v", err)
	}
	got, eof, to := readFrames(conn, 1, bound)
	frames, _ := SplitFrames(got)
	if len(frames) != 1 {
		return fmt.Errorf("probe connection (well-behaved GetInfo) got no answer (eof=%v timeout=%v, %d bytes)", eof, to, len(got))
	}
	if d := MatchFrame(frames[0], ExpFrame{Kind: "getinfo"}, cfg); d != "" {
		return fmt.Errorf("probe connection: wrong GetInfo reply: %s", d)
	}
	return nil
}

// ProtoOutcome carries facts for the non-triviality rules of the callers.
type ProtoOutcome struct {
	Frames    int
	Invs      int
	Refused   int
	DiedByErr bool
	DiedByBad bool
	Aborted   bool
	Lingered  int // connections ended by the service while the client kept its end open
	ExpFrames [][]ExpFrame
	ExpInvs   [][]ExpInv
}

// ExecProto runs the scenario and returns a violation description or nil.
func ExecProto(c ProtoCase, bound time.Duration) (*ProtoOutcome, error) {
	bound *= WatchdogScale()
	for _, cc := range c.Conns {
		bound += workAllowance(2*len(cc.stream()), cc.Cuts, true)
	}
	var idle time.Duration
	if c.IdleEnd && c.Transport != "unix" {
		idle = time.Hour
	}
	p, err := startProtoSvc(c.Ifaces, c.Transport, idle)
	if err != nil {
		return nil, err
	}
	out := &ProtoOutcome{}
	var probe net.Conn
	if c.Probe {
		probe, err = p.connect()
		if err != nil {
			return nil, err
		}
		defer probe.Close()
		if err := probeGetInfo(probe, p.cfg, bound); err != nil {
			return nil, fmt.Errorf("before the test traffic: %v", err)
		}
	}
	type plan struct {
		exp    []ExpFrame
		inv    []ExpInv
		alive  bool
		frames [][]byte
	}
	plans := make([]plan, len(c.Conns))
	results := make([]connResult, len(c.Conns))
	duringDone := make(chan struct{})
	stalled := make(chan struct{}, len(c.Conns))
	nNoRead := 0
	for _, cc := range c.Conns {
		if cc.NoRead {
			nNoRead++
		}
	}
	var wg sync.WaitGroup
	var lingerMu sync.Mutex
	var lingering []net.Conn
	defer func() {
		for _, l := range lingering {
			l.Close()
		}
	}()
	for k := range c.Conns {
		cc := c.Conns[k]
		fr := make([][]byte, len(cc.Frames))
		for i := range cc.Frames {
			fr[i] = cc.Frames[i]
		}
		stream := cc.stream()
		abort := cc.AbortAt >= 0 && cc.AbortAt <= len(stream)
		if abort {
			// only the frames completely inside the sent prefix count
			sent := stream[:cc.AbortAt]
			complete, _ := SplitFrames(sent)
			fr = complete
			stream = sent
			out.Aborted = true
		} else if len(cc.Tail) > 0 {
			abort = true // an unterminated tail followed by close
			out.Aborted = true
		}
		exp, inv, alive, _ := ModelConn(p.cfg, fr)
		plans[k] = plan{exp, inv, alive, fr}
		out.ExpFrames = append(out.ExpFrames, exp)
		out.ExpInvs = append(out.ExpInvs, inv)
		if !alive {
			if len(inv) > 0 && inv[len(inv)-1].RetErr {
				out.DiedByErr = true
			} else {
				out.DiedByBad = true
			}
		}
		for _, e := range inv {
			for _, ok := range e.Results {
				if !ok {
					out.Refused++
				}
			}
		}
		conn, err := p.connect()
		if err != nil {
			return nil, err
		}
		wg.Add(1)
		go func(k int, conn net.Conn, stream []byte, alive, abort bool, nexp int) {
			defer wg.Done()
			// a connection that the SERVICE has to end (bad frame, handler error) is kept open on the client side until
			// the service has released it: ending a connection must not depend on the peer hanging up as well
			defer func() {
				if !alive && !abort && !c.Conns[k].NoRead {
					lingerMu.Lock()
					lingering = append(lingering, conn)
					lingerMu.Unlock()
					return
				}
				conn.Close()
			}()
			if !abort {
				// the sentinel (a GetInfo call) is always appended: when the model says the connection
				// survives, its reply fences all negative observations; when the model says the service
				// must end the connection, a reply to it exposes a connection that was kept alive
				// without waiting for a time-out
				stream = append(append(append([]byte(nil), stream...), sentinelFrame...), 0)
				nexp++
			}
			segs := Segments(stream, c.Conns[k].Cuts)
			res := &results[k]
			if c.Conns[k].NoRead {
				// the client sends and never reads: the service ends up blocked in a reply write. The client stays
				// connected in that state until the probe traffic on OTHER connections has been answered, then vanishes.
				for _, s := range segs {
					conn.SetWriteDeadline(time.Now().Add(40 * time.Millisecond))
					if _, err := conn.Write(s); err != nil {
						break
					}
				}
				stalled <- struct{}{}
				if c.Probe {
					select {
					case <-duringDone:
					case <-time.After(bound):
					}
				}
				return
			}
			var wwg sync.WaitGroup
			wwg.Add(1)
			want := nexp
			uc, isUnix := conn.(*net.UnixConn)
			res.toEOF = !abort
			if abort && isUnix {
				res.toEOF = true
				want = -1 // half-close after the last byte and read to EOF: nothing but the expected replies may arrive
			}
			go func() {
				defer wwg.Done()
				for si, s := range segs {
					conn.SetWriteDeadline(time.Now().Add(bound))
					if _, err := conn.Write(s); err != nil {
						return // the service closed the connection: fine when the model says so
					}
					if c.Conns[k].PauseAt == si+1 && c.Conns[k].PauseMS > 0 {
						time.Sleep(time.Duration(c.Conns[k].PauseMS) * time.Millisecond) // a pause between two segments carries no meaning
					}
				}
				if abort && isUnix {
					uc.CloseWrite()
				}
			}()
			res.got, res.eof, res.timedOut = readFrames(conn, want, bound)
			wwg.Wait()
		}(k, conn, stream, alive, abort, len(exp))
	}
	var duringErr error
	if c.Probe {
		wg.Add(1)
		go func() {
			defer wg.Done()
			defer close(duringDone)
			// wait until the never-reading clients (if any) have stalled their connections
			for i := 0; i < nNoRead; i++ {
				select {
				case <-stalled:
				case <-time.After(bound):
				}
			}
			if err := probeGetInfo(probe, p.cfg, bound); err != nil {
				duringErr = fmt.Errorf("while the test traffic was running (%d client(s) stalled without reading): %v", nNoRead, err)
				return
			}
			// a NEW connection must be accepted and served as well
			fresh, cerr := p.connect()
			if cerr != nil {
				duringErr = cerr
				return
			}
			defer fresh.Close()
			if err := probeGetInfo(fresh, p.cfg, bound); err != nil {
				duringErr = fmt.Errorf("a new connection opened while the test traffic was running (%d client(s) stalled without reading): %v", nNoRead, err)
			}
		}()
	}
	wg.Wait()
	if duringErr != nil {
		return out, duringErr
	}

	// every connection is closed now: resources must be released
	base := int64(0)
	if c.Probe {
		base = 1
	}
	if !p.waitActive(base, bound) {
		if len(lingering) > 0 {
			return out, fmt.Errorf("active-connection count is %d, want %d (waited %v): %d connection(s) that the service had to end are still accounted as open while their clients have not hung up - the service's side was not released", activeConns(p.svc), base, bound, len(lingering))
		}
		return out, fmt.Errorf("active-connection count is %d, want %d, %v after all test connections ended", activeConns(p.svc), base, bound)
	}
	lingerMu.Lock()
	for _, l := range lingering {
		l.Close()
	}
	out.Lingered = len(lingering)
	lingering = nil
	lingerMu.Unlock()
	if c.Probe {
		if err := probeGetInfo(probe, p.cfg, bound); err != nil {
			return out, fmt.Errorf("after the test traffic: %v", err)
		}
		probe.Close()
		if !p.waitActive(0, bound) {
			return out, fmt.Errorf("active-connection count did not return to 0 after the probe closed")
		}
	}
	if idle != 0 {
		if err := p.stopByTimeout(bound); err != nil {
			return out, err
		}
	} else if err := p.stop(bound); err != nil {
		return out, err
	}
	if left := LibGoroutines(bound / 2); left != "" {
		return out, fmt.Errorf("library goroutines still alive after the serving call returned:\n%s", left)
	}

	// compare per connection
	all := p.log.All()
	byConn := map[int][]Invocation{}
	for _, iv := range all {
		k := iv.Conn
		if !iv.HasScript || k < 0 || k >= len(c.Conns) {
			if len(c.Conns) == 1 {
				k = 0
			} else {
				return out, fmt.Errorf("HARNESS: invocation without connection tag in a multi-connection case")
			}
		}
		byConn[k] = append(byConn[k], iv)
	}
	keys := map[string]int{}
	for k := range c.Conns {
		pl := plans[k]
		res := results[k]
		pre := fmt.Sprintf("connection %d: ", k)
		if c.Conns[k].NoRead {
			// nothing to compare on the wire; invocations are compared as a prefix below
		} else {
			if res.timedOut {
				return out, fmt.Errorf("%sno EOF and not all expected replies within %v (got %d bytes; model: alive=%v, %d frames)\n%s", pre, bound, len(res.got), pl.alive, len(pl.exp), describeFrames(res.got))
			}
			frames, rest := SplitFrames(res.got)
			if len(rest) != 0 {
				return out, fmt.Errorf("%sstream ends with %d bytes not terminated by NUL: %s", pre, len(rest), Preview(rest))
			}
			exp := pl.exp
			aborted := c.Conns[k].AbortAt >= 0 || len(c.Conns[k].Tail) > 0
			if pl.alive && !aborted {
				exp = append(append([]ExpFrame(nil), exp...), ExpFrame{Kind: "getinfo", ForCall: -1})
			}
			out.Frames += len(frames)
			if !pl.alive && !aborted && len(frames) == len(exp)+1 {
				return out, fmt.Errorf("%sthe service must end this connection after call %d, but it went on answering\n got: %s\n model: %s", pre, len(exp), describeFrames(res.got), describeExp(exp))
			}
			if len(frames) != len(exp) {
				return out, fmt.Errorf("%s%d reply frames on the wire, model expects %d\n got: %s\n model: %s", pre, len(frames), len(exp), describeFrames(res.got), describeExp(exp))
			}
			for i := range exp {
				if d := MatchFrame(frames[i], exp[i], p.cfg); d != "" {
					return out, fmt.Errorf("%sreply frame %d (for call %d): %s\n got: %s\n model: %s", pre, i, exp[i].ForCall, d, describeFrames(res.got), describeExp(exp))
				}
			}
			if !pl.alive && !res.eof && res.toEOF {
				return out, fmt.Errorf("%sthe service must end this connection, but no EOF was seen", pre)
			}
			if pl.alive && !aborted && res.eof {
				return out, fmt.Errorf("%sthe service closed a connection that must stay usable", pre)
			}
		}
		// invocations
		gotInv := byConn[k]
		sort.Slice(gotInv, func(i, j int) bool { return gotInv[i].Enter < gotInv[j].Enter })
		out.Invs += len(gotInv)
		wantInv := pl.inv
		if c.Conns[k].NoRead {
			// the peer vanished while replies were pending: writes may fail, so handler results and the
			// number of calls reached are only prefix-checked
			if len(gotInv) > len(wantInv) {
				return out, fmt.Errorf("%s%d handler invocations, but only %d complete well-formed calls were sent", pre, len(gotInv), len(wantInv))
			}
			wantInv = wantInv[:len(gotInv)]
		}
		if len(gotInv) != len(wantInv) {
			return out, fmt.Errorf("%s%d handler invocations logged, model expects %d\n got: %s\n model: %s", pre, len(gotInv), len(wantInv), describeInv(gotInv), describeExpInv(wantInv))
		}
		for i := range wantInv {
			g, w := gotInv[i], wantInv[i]
			if g.Iface != w.Iface || g.Method != w.Method {
				return out, fmt.Errorf("%sinvocation %d went to %q method %q, model expects %q method %q", pre, i, g.Iface, g.Method, w.Iface, w.Method)
			}
			if g.More != w.More || g.Oneway != w.Oneway || g.Upgrade != w.Upgrade {
				return out, fmt.Errorf("%sinvocation %d flags more/oneway/upgrade = %v/%v/%v, sent %v/%v/%v", pre, i, g.More, g.Oneway, g.Upgrade, w.More, w.Oneway, w.Upgrade)
			}
			if w.Params == nil {
				if g.ParamErr == "" {
					return out, fmt.Errorf("%sinvocation %d: GetParameters succeeded (%s) although no parameters were sent", pre, i, Preview(g.Params))
				}
			} else {
				if g.ParamErr != "" {
					return out, fmt.Errorf("%sinvocation %d: GetParameters failed (%s), sent %s", pre, i, g.ParamErr, Preview(w.Params))
				}
				if d := JSONDiff(w.Params, g.Params); d != "" {
					return out, fmt.Errorf("%sinvocation %d: parameters differ from what was sent: %s", pre, i, d)
				}
			}
			if i > 0 && gotInv[i-1].Exit > g.Enter {
				return out, fmt.Errorf("%sinvocation %d was dispatched (seq %d) before the previous handler returned (seq %d)", pre, i, g.Enter, gotInv[i-1].Exit)
			}
			if g.Exit == 0 {
				return out, fmt.Errorf("%sinvocation %d never returned", pre, i)
			}
			if c.Conns[k].NoRead {
				continue
			}
			if len(g.Results) != len(w.Results) {
				return out, fmt.Errorf("%sinvocation %d executed %d script actions, model expects %d", pre, i, len(g.Results), len(w.Results))
			}
			for j := range w.Results {
				if w.DontCare[j] {
					continue
				}
				okGot := g.Results[j].Err == ""
				if okGot != w.Results[j] {
					return out, fmt.Errorf("%sinvocation %d action %d returned %q to the handler, model expects success=%v", pre, i, j, g.Results[j].Err, w.Results[j])
				}
			}
			if g.RetErr != w.RetErr {
				return out, fmt.Errorf("%sinvocation %d: handler returned error=%v, model expects %v", pre, i, g.RetErr, w.RetErr)
			}
			if prev, ok := keys[g.ConnKey]; ok && prev != k {
				return out, fmt.Errorf("%sinvocation %d shares its Call.Conn with connection %d", pre, i, prev)
			}
			keys[g.ConnKey] = k
			if i > 0 && gotInv[i-1].ConnKey != g.ConnKey {
				return out, fmt.Errorf("%sCall.Conn changed between invocations %d and %d", pre, i-1, i)
			}
		}
	}
	return out, nil
}

func describeFrames(b []byte) string {
	frames, rest := SplitFrames(b)
	var sb strings.Builder
	for _, f := range frames {
		sb.WriteString(Preview(f))
		sb.WriteString(" ␀ ")
	}
	if len(rest) > 0 {
		sb.WriteString("[unterminated: " + Preview(rest) + "]")
	}
	return sb.String()
}

func describeExp(e []ExpFrame) string {
	var sb strings.Builder
	for _, f := range e {
		fmt.Fprintf(&sb, "{call %d %s cont=%v err=%q p=%s} ", f.ForCall, f.Kind, f.Continues, f.Error, Preview(f.Params))
	}
	return sb.String()
}

func describeInv(v []Invocation) string {
	var sb strings.Builder
	for _, i := range v {
		fmt.Fprintf(&sb, "{%s.%s id=%d} ", i.Iface, i.Method, i.ID)
	}
	return sb.String()
}

func describeExpInv(v []ExpInv) string {
	var sb strings.Builder
	for _, i := range v {
		fmt.Fprintf(&sb, "{%s.%s id=%d} ", i.Iface, i.Method, i.ID)
	}
	return sb.String()
}

// EncodeCall renders a call frame (without NUL) from its parts; params nil = member absent.
func EncodeCall(method string, params []byte, more, oneway, upgrade bool) []byte {
	var b bytes.Buffer
	b.WriteString(`{"method":`)
	m, _ := json.Marshal(method)
	b.Write(m)
	if params != nil {
		b.WriteString(`,"parameters":`)
		b.Write(params)
	}
	if more {
		b.WriteString(`,"more":true`)
	}
	if oneway {
		b.WriteString(`,"oneway":true`)
	}
	if upgrade {
		b.WriteString(`,"upgrade":true`)
	}
	b.WriteString("}")
	return b.Bytes()
}

var _ = io.EOF
