package props

// C02 Framing: one JSON object + one NUL, independent of segmentation.
//
// (a) emission: everything the client and the service put on the wire is captured by a recording
//     proxy and must split at NUL into exactly as many valid JSON objects as messages were sent;
// (b) reception: the same bytes under any segmentation (the proxy re-cuts both directions, and
//     coalesces all replies of a call into one delivery) must yield the same messages, i.e. the
//     model's, on both sides. The service side is additionally driven by a raw client (ExecProto).

import (
	"encoding/json"
	"fmt"
	"strings"
	"testing"

	"pgregory.net/rapid"
)

func genProxyCuts(t *rapid.T, label string) []int {
	switch rapid.IntRange(0, 6).Draw(t, label+"kind") {
	case 0:
		return nil
	case 1:
		return []int{1}
	case 2:
		return []int{rapid.IntRange(2, 9).Draw(t, label+"small")}
	case 3:
		return []int{rapid.SampledFrom([]int{4095, 4096, 4097, 8192, 65536}).Draw(t, label+"buf")}
	case 4:
		return []int{rapid.IntRange(10, 5000).Draw(t, label+"mid")}
	default:
		return rapid.SliceOfN(rapid.IntRange(1, 6000), 1, 5).Draw(t, label+"list")
	}
}

func coarsen(cuts []int) []int {
	out := append([]int(nil), cuts...)
	for i := range out {
		if out[i] < 512 {
			out[i] = 512 + out[i]
		}
	}
	return out
}

func genC02(t *rapid.T) E2ECase {
	c := genE2ECase(t, "C02", false)
	c.Transport = "pipe"
	c.Proxy = true
	c.CutsC2S = genProxyCuts(t, "c2s")
	c.CutsS2C = genProxyCuts(t, "s2c")
	big := 0
	for _, st := range c.Steps {
		big += len(st.Params)
	}
	if big > 300000 { // MiB documents one byte at a time would only test the harness's patience
		c.CutsC2S, c.CutsS2C = coarsen(c.CutsC2S), coarsen(c.CutsS2C)
	}
	c.Coalesce = rapid.IntRange(0, 2).Draw(t, "coalesce") != 0
	return c
}

func checkC02(c E2ECase, st *Stats) error {
	sanitizeDontCare(&c, false)
	out, err := ExecE2E(c, protoBound)
	nt := false
	labels := []string{}
	if len(c.CutsC2S) > 0 {
		labels = append(labels, "c2s:recut")
	}
	if len(c.CutsS2C) > 0 {
		labels = append(labels, "s2c:recut")
	}
	if c.Coalesce {
		labels = append(labels, "s2c:coalesced")
	}
	if err == nil && out != nil {
		// steps + sentinel GetInfo; a session that ended by handler failure has no sentinel
		if d := CheckWireStream("client->service", out.C2S, -1); d != "" {
			err = fmt.Errorf("%s", d)
		} else if d := CheckWireStream("service->client", out.S2C, -1); d != "" {
			err = fmt.Errorf("%s", d)
		}
		nC2S, _ := SplitFrames(out.C2S)
		nS2C, _ := SplitFrames(out.S2C)
		st.Count("frames-captured", int64(len(nC2S)+len(nS2C)))
		for _, f := range append(nC2S, nS2C...) {
			if len(f) > 4096 {
				nt = true
				labels = append(labels, "frame>4096")
				break
			}
		}
		if err == nil && len(nC2S) < len(c.Steps) {
			// (fewer is possible only when the session died early)
			st.Count("session-ended-early", 1)
		}
		if len(c.CutsC2S) > 0 || len(c.CutsS2C) > 0 {
			nt = true
		}
		if c.Coalesce && out.Continues > 0 {
			nt = true
			labels = append(labels, "several-frames-one-delivery")
		}
		if hasHardJSON(string(out.C2S)) || hasHardJSON(string(out.S2C)) {
			nt = true
			labels = append(labels, "hard-strings")
		}
		st.Count("comparisons", int64(out.Comparisons))
	}
	st.Case(HashOf(c), nt, func() interface{} { return c }, dedupe(labels)...)
	return err
}

var propC02 = Register(Prop[E2ECase]{ID: "C02", Name: "C02", Pending: true, Check: checkC02})

func TestC02Rapid(t *testing.T) {
	p := propC02
	p.Gen = genC02
	RunRapid(t, p, "C02Rapid")
}

// --- service side through a raw client -------------------------------------------------------

func genC02Proto(t *rapid.T) ProtoCase {
	c := ProtoCase{Ifaces: []string{"x.y"}, Transport: "pipe", Origin: "C02svc"}
	if rapid.IntRange(0, 7).Draw(t, "unix") == 0 {
		c.Transport = "unix"
	}
	cc := ConnCase{AbortAt: -1}
	n := rapid.IntRange(1, 6).Draw(t, "ncalls")
	for i := 0; i < n; i++ {
		sp := ScriptParams{Conn: 0, ID: i, Pad: genDoc(t, "pad"), Script: []Op{}}
		more := rapid.IntRange(0, 3).Draw(t, "more") == 0
		if more {
			for k := rapid.IntRange(0, 3).Draw(t, "k"); k > 0; k-- {
				sp.Script = append(sp.Script, Op{Op: "reply", Continues: true, P: genDoc(t, "cp")})
			}
		}
		sp.Script = append(sp.Script, Op{Op: "reply", P: genDoc(t, "rp")})
		b, _ := json.Marshal(sp)
		cc.Frames = append(cc.Frames, EncodeCall("x.y.M", b, more, false, false))
	}
	stream := cc.stream()
	switch rapid.IntRange(0, 3).Draw(t, "cutsrc") {
	case 0:
		cc.Cuts = genProxyCuts(t, "raw")
	default:
		cc.Cuts = genCuts(t, stream)
	}
	if len(stream) > 300000 {
		cc.Cuts = coarsen(cc.Cuts)
	}
	if len(cc.Cuts) > 0 && rapid.IntRange(0, 19).Draw(t, "pause") == 0 {
		// a pause in the middle of the stream (usually inside a frame)
		nseg := len(Segments(stream, cc.Cuts))
		cc.PauseAt = rapid.IntRange(1, nseg).Draw(t, "pause_at")
		cc.PauseMS = rapid.SampledFrom([]int{5, 120, 350}).Draw(t, "pause_ms")
	}
	c.Conns = []ConnCase{cc}
	return c
}

func checkC02Proto(c ProtoCase, st *Stats) error {
	out, err := ExecProto(c, protoBound)
	nt := len(c.Conns[0].Cuts) > 0
	labels := []string{"transport:" + c.Transport}
	if c.Conns[0].PauseMS > 0 {
		labels = append(labels, fmt.Sprintf("pause:%dms", c.Conns[0].PauseMS))
	}
	for _, f := range c.Conns[0].Frames {
		if len(f) > 4096 {
			labels = append(labels, "frame>4096")
			nt = true
			break
		}
	}
	if out != nil {
		st.Count("reply-frames-checked", int64(out.Frames))
	}
	st.Case(HashOf(c), nt, func() interface{} { return c }, labels...)
	return err
}

var propC02Proto = Register(Prop[ProtoCase]{ID: "C02", Name: "C02svc", Pending: true, Check: checkC02Proto})

func TestC02Service(t *testing.T) {
	p := propC02Proto
	p.Gen = genC02Proto
	RunRapid(t, p, "C02Service")
}

// TestC02EveryCut: for fixed short streams, every single cut position in the client->service
// direction (raw client) and in the service->client direction (proxy, replies coalesced), i.e. the
// bounded-exhaustive slice "all two-segment partitions".
func TestC02EveryCut(t *testing.T) {
	doc := `{"s":"a\u0000\"\\é😀","n":12345678901234567890123}`
	mk := func(id int, more bool, ops ...Op) []byte {
		b, _ := json.Marshal(ScriptParams{Conn: 0, ID: id, Pad: json.RawMessage(doc), Script: ops})
		return EncodeCall("x.y.M", b, more, false, false)
	}
	rep := Op{Op: "reply", P: json.RawMessage(doc)}
	cont := Op{Op: "reply", Continues: true, P: json.RawMessage(doc)}
	frames := [][]byte{mk(0, false, rep), mk(1, true, cont, cont, rep), EncodeCall("org.varlink.service.GetInfo", nil, false, false, false), mk(3, false, Op{Op: "error", Name: "x.y.E", P: json.RawMessage(doc)})}
	stream := joinFrames(frames...)
	// service -> client: expected reply bytes are about as long; cut positions up to a generous bound
	shard, nshards := Shard()
	i := 0
	nSvc := len(stream)
	nCli := 700
	svcDone := false
	next := func() (interface{}, bool) {
		for i < nSvc+nCli {
			k := i
			i++
			if k%nshards != shard {
				continue
			}
			if k < nSvc {
				cc := connFromStream(stream)
				cc.Cuts = []int{k + 1, 1 << 30}
				return ProtoCase{Ifaces: []string{"x.y"}, Conns: []ConnCase{cc}, Transport: "pipe", Origin: "C02EveryCut"}, true
			}
			svcDone = true
			steps := []Step{
				{API: "send", Method: "x.y.M", More: true, Params: mustScript(1, json.RawMessage(doc), cont, cont, rep)},
				{API: "send", Method: "x.y.M", Params: mustScript(3, json.RawMessage(doc), Op{Op: "error", Name: "x.y.E", P: json.RawMessage(doc)})},
			}
			return E2ECase{Ifaces: []string{"x.y"}, Transport: "pipe", Proxy: true, Coalesce: true, CutsS2C: []int{k - nSvc + 1, 1 << 30}, Steps: steps, Origin: "C02EveryCut"}, true
		}
		return nil, false
	}
	_ = svcDone
	st := NewStats("C02EveryCut")
	st.Exhaustive = true
	completed := false
	defer func() { st.Flush(completed) }()
	for {
		c, ok := next()
		if !ok {
			break
		}
		var err error
		switch x := c.(type) {
		case ProtoCase:
			err = Guard(func() error { return checkC02Proto(x, st) })
			if err != nil {
				SaveFailing("C02", "C02svc", x, err.Error())
			}
		case E2ECase:
			err = Guard(func() error { return checkC02(x, st) })
			if err != nil {
				SaveFailing("C02", "C02", x, err.Error())
			}
		}
		if err != nil {
			t.Fatalf("C02 violated: %v", err)
		}
	}
	completed = true
}

func mustScript(id int, pad json.RawMessage, ops ...Op) json.RawMessage {
	b, _ := json.Marshal(ScriptParams{Conn: 0, ID: id, Pad: pad, Script: ops})
	return b
}

// TestC02Concurrent: many connections served at the same time, each receiving large replies with
// connection-specific content (a write in flight on one connection while others are being
// encoded), on both transports. Framing and content are checked per connection by ExecProto.
func TestC02Concurrent(t *testing.T) {
	type cfg struct {
		tr    string
		conns int
		size  int
	}
	cfgs := []cfg{{"pipe", 12, 200000}, {"unix", 12, 400000}, {"unix", 32, 700000}, {"pipe", 24, 70000}, {"unix", 6, 1500000}, {"unix", 48, 300000}}
	if Thorough() {
		cfgs = append(cfgs, cfg{"unix", 64, 1000000}, cfg{"pipe", 48, 500000}, cfg{"unix", 16, 3000000})
	}
	shard, nshards := Shard()
	i := 0
	reps := 2
	next := func() (ProtoCase, bool) {
		for i < len(cfgs)*reps {
			k := i
			i++
			if k%nshards != shard {
				continue
			}
			cf := cfgs[k%len(cfgs)]
			c := ProtoCase{Ifaces: []string{"x.y"}, Transport: cf.tr, Origin: "C02Concurrent"}
			for conn := 0; conn < cf.conns; conn++ {
				cc := ConnCase{AbortAt: -1}
				for call := 0; call < 3; call++ {
					unit := fmt.Sprintf("<conn %d call %d \\\"q\\\" \\u0000 é>", conn, call)
					var sb strings.Builder
					sb.WriteString(`{"pad":"`)
					for sb.Len() < cf.size {
						sb.WriteString(unit)
					}
					sb.WriteString(`"}`)
					sp := ScriptParams{Conn: conn, ID: call, Script: []Op{{Op: "reply", P: json.RawMessage(sb.String())}}}
					b, _ := json.Marshal(sp)
					cc.Frames = append(cc.Frames, EncodeCall("x.y.Big", b, false, false, false))
				}
				c.Conns = append(c.Conns, cc)
			}
			return c, true
		}
		return ProtoCase{}, false
	}
	p := propC02Proto
	p.Check = func(c ProtoCase, st *Stats) error {
		_, err := ExecProto(c, 3*protoBound)
		st.Case(HashOf(len(c.Conns)*1000003+len(c.Conns[0].Frames[0])), true, nil, "concurrent-big-replies", "transport:"+c.Transport)
		st.Count("connections", int64(len(c.Conns)))
		return err
	}
	RunCases(t, p, "C02Concurrent", true, next)
}
