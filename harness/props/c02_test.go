package props

// C02 Framing: one JSON object + one NUL, independent of segmentation.
//
// (a) emission: everything the client and the service put on the wire is captured by a recording
//     proxy and must split at NUL into exactly as many valid JSON objects as messages were sent;
// (b) reception: the same bytes under any segmentation (the proxy re-cuts both directions, and
//     coalesces all replies of a call into one delivery) must yield the same messages, i.e. the
//     model's, on both sides. The service side is additionally driven by a raw client (ExecProto).

import (
	"bytes"
	"context"
	"encoding/json"
	"fmt"
	"net"
	"strings"
	"testing"
	"time"

	"github.com/varlink/go/varlink"

	"pgregory.net/rapid"
)

func genProxyCuts(t *rapid.T, label string) []int {
	switch rapid.IntRange(0, 6).Draw(t, label+"kind") {
	case 0:
		return nil
	case 1:
		return []int{1}
	case 2:
		return []int{rapid.IntRange(2, 9).Draw(t, label+"small")}
	case 3:
		return []int{rapid.SampledFrom([]int{4095, 4096, 4097, 8192, 65536}).Draw(t, label+"buf")}
	case 4:
		return []int{rapid.IntRange(10, 5000).Draw(t, label+"mid")}
	default:
		return rapid.SliceOfN(rapid.IntRange(1, 6000), 1, 5).Draw(t, label+"list")
	}
}

func coarsen(cuts []int) []int {
	out := append([]int(nil), cuts...)
	for i := range out {
		if out[i] < 512 {
			out[i] = 512 + out[i]
		}
	}
	return out
}

func genC02(t *rapid.T) E2ECase {
	c := genE2ECase(t, "C02", false)
	c.Transport = "pipe"
	c.Proxy = true
	c.CutsC2S = genProxyCuts(t, "c2s")
	c.CutsS2C = genProxyCuts(t, "s2c")
	big := 0
	for _, st := range c.Steps {
		big += len(st.Params)
	}
	if big > 300000 { // MiB documents one byte at a time would only test the harness's patience
		c.CutsC2S, c.CutsS2C = coarsen(c.CutsC2S), coarsen(c.CutsS2C)
	}
	c.Coalesce = rapid.IntRange(0, 2).Draw(t, "coalesce") != 0
	return c
}

func checkC02(c E2ECase, st *Stats) error {
	sanitizeDontCare(&c, false)
	out, err := ExecE2E(c, protoBound)
	nt := false
	labels := []string{}
	if len(c.CutsC2S) > 0 {
		labels = append(labels, "c2s:recut")
	}
	if len(c.CutsS2C) > 0 {
		labels = append(labels, "s2c:recut")
	}
	if c.Coalesce {
		labels = append(labels, "s2c:coalesced")
	}
	if err == nil && out != nil {
		// steps + sentinel GetInfo; a session that ended by handler failure has no sentinel
		if d := CheckWireStream("client->service", out.C2S, -1); d != "" {
			err = fmt.Errorf("%s", d)
		} else if d := CheckWireStream("service->client", out.S2C, -1); d != "" {
			err = fmt.Errorf("%s", d)
		}
		nC2S, _ := SplitFrames(out.C2S)
		nS2C, _ := SplitFrames(out.S2C)
		st.Count("frames-captured", int64(len(nC2S)+len(nS2C)))
		for _, f := range append(nC2S, nS2C...) {
			if len(f) > 4096 {
				nt = true
				labels = append(labels, "frame>4096")
				break
			}
		}
		if err == nil && len(nC2S) < len(c.Steps) {
			// (fewer is possible only when the session died early)
			st.Count("session-ended-early", 1)
		}
		if len(c.CutsC2S) > 0 || len(c.CutsS2C) > 0 {
			nt = true
		}
		if c.Coalesce && out.Continues > 0 {
			nt = true
			labels = append(labels, "several-frames-one-delivery")
		}
		if hasHardJSON(string(out.C2S)) || hasHardJSON(string(out.S2C)) {
			nt = true
			labels = append(labels, "hard-strings")
		}
		st.Count("comparisons", int64(out.Comparisons))
	}
	st.Case(HashOf(c), nt, func() interface{} { return c }, dedupe(labels)...)
	return err
}

var propC02 = Register(Prop[E2ECase]{ID: "C02", Name: "C02", Pending: true, Check: checkC02})

func TestC02Rapid(t *testing.T) {
	p := propC02
	p.Gen = genC02
	RunRapid(t, p, "C02Rapid")
}

// --- service side through a raw client -------------------------------------------------------

func genC02Proto(t *rapid.T) ProtoCase {
	c := ProtoCase{Ifaces: []string{"x.y"}, Transport: "pipe", Origin: "C02svc"}
	if rapid.IntRange(0, 4).Draw(t, "unix") == 0 {
		c.Transport = "unix"
	}
	cc := ConnCase{AbortAt: -1}
	n := rapid.IntRange(1, 6).Draw(t, "ncalls")
	for i := 0; i < n; i++ {
		sp := ScriptParams{Conn: 0, ID: i, Pad: genDoc(t, "pad"), Script: []Op{}}
		more := rapid.IntRange(0, 3).Draw(t, "more") == 0
		if more {
			for k := rapid.IntRange(0, 3).Draw(t, "k"); k > 0; k-- {
				sp.Script = append(sp.Script, Op{Op: "reply", Continues: true, P: genDoc(t, "cp")})
			}
		}
		sp.Script = append(sp.Script, Op{Op: "reply", P: genDoc(t, "rp")})
		switch rapid.IntRange(0, 9).Draw(t, "stderr") {
		case 0:
			// the service's own error replies carry caller-supplied strings: they must be valid JSON objects too
			hostile := string(genRunes(t, "hostile", 10))
			sp.Script = []Op{{Op: rapid.SampledFrom([]string{"ifnotfound", "methodnotfound", "notimpl", "invalidparam"}).Draw(t, "stdop"), S: hostile}}
		case 1:
			hostile := strings.ReplaceAll(string(genRunes(t, "hostile", 10)), ".", "")
			meth := rapid.SampledFrom([]string{"unknown." + hostile + ".M", hostile, "org.varlink.service." + hostile, "x.y" + hostile + ".M"}).Draw(t, "hostilemethod")
			cc.Frames = append(cc.Frames, EncodeCall(meth, nil, false, false, false))
			continue
		}
		if rapid.IntRange(0, 5).Draw(t, "unencodable") == 0 && len(sp.Script) > 0 && sp.Script[0].Op == "reply" {
			// "for any parameter values the caller supplies": a value without JSON encoding (pre-encoded bytes that are not one
			// JSON value, NaN, a failing Marshaler, ...) is refused - what reaches the wire is still only whole, valid frames
			un := Op{Op: "reply", Go: rapid.SampledFrom(UnencodableKinds).Draw(t, "unkind")}
			if rapid.Bool().Draw(t, "unerr") {
				un = Op{Op: "error", Name: "x.y.E", Go: un.Go}
			}
			at := rapid.IntRange(0, len(sp.Script)-1).Draw(t, "unat")
			sp.Script = append(sp.Script[:at:at], append([]Op{un}, sp.Script[at:]...)...)
		}
		b, _ := json.Marshal(sp)
		cc.Frames = append(cc.Frames, EncodeCall("x.y.M", b, more, false, false))
	}
	hangup := rapid.IntRange(0, 4).Draw(t, "hangup") == 0
	if hangup {
		// the stream ends with a frame that makes the service hang up: the calls in front of it are complete messages and are
		// answered in full however the bytes are cut - also when they all arrive in the segment that carries the bad frame
		cc.Frames = append(cc.Frames, Blob(rapid.SampledFrom([]string{`[1,2]`, `{"method":"x.y.M"}}`, `"x"`, `{"method":7}`}).Draw(t, "badframe")))
	}
	stream := cc.stream()
	switch rapid.IntRange(0, 3).Draw(t, "cutsrc") {
	case 0:
		cc.Cuts = genProxyCuts(t, "raw")
	default:
		cc.Cuts = genCuts(t, stream)
	}
	if len(stream) > 300000 {
		cc.Cuts = coarsen(cc.Cuts)
	}
	if len(cc.Cuts) > 0 && rapid.IntRange(0, 19).Draw(t, "pause") == 0 {
		// a pause in the middle of the stream (usually inside a frame)
		nseg := len(Segments(stream, cc.Cuts))
		cc.PauseAt = rapid.IntRange(1, nseg).Draw(t, "pause_at")
		cc.PauseMS = rapid.SampledFrom([]int{5, 120, 350}).Draw(t, "pause_ms")
	}
	if c.Transport == "unix" && !hangup && rapid.Bool().Draw(t, "halfclose") {
		// the client shuts down its sending side right after the last byte and reads to EOF:
		// everything it sent before is still a sequence of complete messages and is answered in full
		cc.AbortAt = len(stream)
	}
	c.Conns = []ConnCase{cc}
	return c
}

func checkC02Proto(c ProtoCase, st *Stats) error {
	out, err := ExecProto(c, protoBound)
	nt := len(c.Conns[0].Cuts) > 0
	labels := []string{"transport:" + c.Transport}
	if c.Conns[0].PauseMS > 0 {
		labels = append(labels, fmt.Sprintf("pause:%dms", c.Conns[0].PauseMS))
	}
	for _, f := range c.Conns[0].Frames {
		if len(f) > 4096 {
			labels = append(labels, "frame>4096")
			nt = true
			break
		}
	}
	if out != nil {
		st.Count("reply-frames-checked", int64(out.Frames))
	}
	st.Case(HashOf(c), nt, func() interface{} { return c }, labels...)
	return err
}

var propC02Proto = Register(Prop[ProtoCase]{ID: "C02", Name: "C02svc", Pending: true, Check: checkC02Proto})

func TestC02Service(t *testing.T) {
	p := propC02Proto
	p.Gen = genC02Proto
	RunRapid(t, p, "C02Service")
}

// TestC02EveryCut: for fixed short streams, every single cut position in the client->service
// direction (raw client) and in the service->client direction (proxy, replies coalesced), i.e. the
// bounded-exhaustive slice "all two-segment partitions".
func TestC02EveryCut(t *testing.T) {
	doc := `{"s":"a\u0000\"\\é😀","n":12345678901234567890123}`
	mk := func(id int, more bool, ops ...Op) []byte {
		b, _ := json.Marshal(ScriptParams{Conn: 0, ID: id, Pad: json.RawMessage(doc), Script: ops})
		return EncodeCall("x.y.M", b, more, false, false)
	}
	rep := Op{Op: "reply", P: json.RawMessage(doc)}
	cont := Op{Op: "reply", Continues: true, P: json.RawMessage(doc)}
	frames := [][]byte{mk(0, false, rep), mk(1, true, cont, cont, rep), EncodeCall("org.varlink.service.GetInfo", nil, false, false, false), mk(3, false, Op{Op: "error", Name: "x.y.E", P: json.RawMessage(doc)})}
	stream := joinFrames(frames...)
	// service -> client: expected reply bytes are about as long; cut positions up to a generous bound
	shard, nshards := Shard()
	i := 0
	nSvc := len(stream)
	nCli := 700
	svcDone := false
	next := func() (interface{}, bool) {
		for i < nSvc+nCli {
			k := i
			i++
			if k%nshards != shard {
				continue
			}
			if k < nSvc {
				cc := connFromStream(stream)
				cc.Cuts = []int{k + 1, 1 << 30}
				return ProtoCase{Ifaces: []string{"x.y"}, Conns: []ConnCase{cc}, Transport: "pipe", Origin: "C02EveryCut"}, true
			}
			svcDone = true
			steps := []Step{
				{API: "send", Method: "x.y.M", More: true, Params: mustScript(1, json.RawMessage(doc), cont, cont, rep)},
				{API: "send", Method: "x.y.M", Params: mustScript(3, json.RawMessage(doc), Op{Op: "error", Name: "x.y.E", P: json.RawMessage(doc)})},
			}
			return E2ECase{Ifaces: []string{"x.y"}, Transport: "pipe", Proxy: true, Coalesce: true, CutsS2C: []int{k - nSvc + 1, 1 << 30}, Steps: steps, Origin: "C02EveryCut"}, true
		}
		return nil, false
	}
	_ = svcDone
	st := NewStats("C02EveryCut")
	st.Exhaustive = true
	completed := false
	defer func() { st.Flush(completed) }()
	for {
		c, ok := next()
		if !ok {
			break
		}
		var err error
		switch x := c.(type) {
		case ProtoCase:
			err = Guard(func() error { return checkC02Proto(x, st) })
			if err != nil {
				SaveFailing("C02", "C02svc", x, err.Error())
			}
		case E2ECase:
			err = Guard(func() error { return checkC02(x, st) })
			if err != nil {
				SaveFailing("C02", "C02", x, err.Error())
			}
		}
		if err != nil {
			t.Fatalf("C02 violated: %v", err)
		}
	}
	completed = true
}

func mustScript(id int, pad json.RawMessage, ops ...Op) json.RawMessage {
	b, _ := json.Marshal(ScriptParams{Conn: 0, ID: id, Pad: pad, Script: ops})
	return b
}

// TestC02Concurrent: many connections served at the same time, each receiving large replies with
// connection-specific content (a write in flight on one connection while others are being
// encoded), on both transports. Framing and content are checked per connection by ExecProto.
type concCfg struct {
	tr    string
	conns int
	size  int
}

// concurrentBigCase: conns connections, three calls each, every reply a document of about size bytes that names its
// connection and call; with refused the first call of every connection starts with a reply attempt that cannot be encoded.
func concurrentBigCase(cf concCfg, refused bool, origin string) ProtoCase {
	c := ProtoCase{Ifaces: []string{"x.y"}, Transport: cf.tr, Origin: origin}
	for conn := 0; conn < cf.conns; conn++ {
		cc := ConnCase{AbortAt: -1}
		for call := 0; call < 3; call++ {
			unit := fmt.Sprintf("<conn %d call %d \\\"q\\\" \\u0000 é>", conn, call)
			var sb strings.Builder
			sb.WriteString(`{"pad":"`)
			for sb.Len() < cf.size {
				sb.WriteString(unit)
			}
			sb.WriteString(`"}`)
			sp := ScriptParams{Conn: conn, ID: call, Script: []Op{{Op: "reply", P: json.RawMessage(sb.String())}}}
			if call == 0 && refused {
				// a reply attempt whose parameters cannot be encoded (refused, nothing written) precedes the real one
				sp.Script = append([]Op{{Op: "reply", Go: UnencodableKinds[conn%len(UnencodableKinds)]}}, sp.Script...)
			}
			b, _ := json.Marshal(sp)
			cc.Frames = append(cc.Frames, EncodeCall("x.y.Big", b, false, false, false))
		}
		c.Conns = append(c.Conns, cc)
	}
	return c
}

func TestC02Concurrent(t *testing.T) {
	cfgs := []concCfg{{"pipe", 12, 200000}, {"unix", 12, 400000}, {"unix", 32, 700000}, {"pipe", 24, 70000}, {"unix", 6, 1500000}, {"unix", 48, 300000}}
	if Thorough() {
		cfgs = append(cfgs, concCfg{"unix", 64, 1000000}, concCfg{"pipe", 48, 500000}, concCfg{"unix", 16, 3000000})
	}
	shard, nshards := Shard()
	i := 0
	reps := 2
	next := func() (ProtoCase, bool) {
		for i < len(cfgs)*reps {
			k := i
			i++
			if k%nshards != shard {
				continue
			}
			return concurrentBigCase(cfgs[k%len(cfgs)], k%2 == 1, "C02Concurrent"), true
		}
		return ProtoCase{}, false
	}
	p := propC02Proto
	p.Check = func(c ProtoCase, st *Stats) error {
		_, err := ExecProto(c, 3*protoBound)
		st.Case(HashOf(len(c.Conns)*1000003+len(c.Conns[0].Frames[0])), true, nil, "concurrent-big-replies", "transport:"+c.Transport)
		st.Count("connections", int64(len(c.Conns)))
		return err
	}
	RunCases(t, p, "C02Concurrent", true, next)
}

// ---------------------------------------------------------------------------
// client pipelining: several calls are sent before their replies are read, replies of different calls arrive
// in one segment, and a further call is sent while replies are still buffered on the client side.

// PipeCase: n calls, each answered by its own scripted replies; Order is the interleaving of "s<i>" (send call i)
// and "r<i>" (receive all replies of call i); replies of calls that are outstanding together are delivered coalesced.
type PipeCase struct {
	Docs    []json.RawMessage `json:"docs"`  // reply document of call i
	Conts   []int             `json:"conts"` // number of continues-replies of call i (call sent with more if > 0)
	Order   []string          `json:"order"`
	CutsS2C []int             `json:"cuts_s2c,omitempty"`
	Hold    bool              `json:"hold"` // the proxy holds the replies of all outstanding calls and delivers them together
	// Conc: while a call is being sent, another goroutine is already waiting in the receive function of the
	// oldest outstanding call (one connection used in both directions at once: one writer, one reader)
	Conc bool `json:"conc,omitempty"`
}

func execPipeline(c PipeCase, bound time.Duration) error {
	bound *= WatchdogScale()
	env, err := startE2E([]string{"x.y"}, "pipe", false)
	if err != nil {
		return err
	}
	conn, proxy, err := env.dial(E2ECase{Transport: "pipe", Proxy: true, CutsS2C: c.CutsS2C}, bound)
	if err != nil {
		env.svc.Shutdown()
		env.cleanup()
		return err
	}
	defer func() {
		conn.Close()
		proxy.close()
		env.stop(bound)
	}()
	ctx, cancel := context.WithTimeout(context.Background(), bound)
	defer cancel()
	recvs := map[int]func(context.Context, interface{}) (uint64, error){}
	outstanding := 0 // reply frames sent by the service but not yet read by the client
	gated := 0       // reply frames the proxy is holding back
	framesOf := func(i int) int { return c.Conts[i] + 1 }
	type bgRes struct {
		fl  uint64
		raw json.RawMessage
		err error
	}
	bgCall, nextRecv := -1, 0 // call whose first receive runs in the background; oldest call not yet received
	var bgCh chan bgRes
	for _, o := range c.Order {
		var i int
		fmt.Sscanf(o[1:], "%d", &i)
		if i < 0 || i >= len(c.Docs) {
			return fmt.Errorf("HARNESS: bad order entry %q", o)
		}
		if o[0] == 's' {
			var ops []Op
			for k := 0; k < c.Conts[i]; k++ {
				ops = append(ops, Op{Op: "reply", Continues: true, P: json.RawMessage(fmt.Sprintf(`{"call":%d,"cont":%d}`, i, k))})
			}
			ops = append(ops, Op{Op: "reply", P: c.Docs[i]})
			flags := uint64(0)
			if c.Conts[i] > 0 {
				flags = varlink.More
			}
			outstanding += framesOf(i)
			if c.Hold {
				proxy.S2C.closeGate() // replies are held back until the next receive, then delivered together
				gated += framesOf(i)
			}
			if c.Conc && bgCall < 0 && nextRecv < i && recvs[nextRecv] != nil {
				bgCall, bgCh = nextRecv, make(chan bgRes, 1)
				go func(r func(context.Context, interface{}) (uint64, error), ch chan bgRes) {
					var res bgRes
					res.fl, res.err = r(ctx, &res.raw)
					ch <- res
				}(recvs[nextRecv], bgCh)
				time.Sleep(time.Millisecond) // let it get into the read
			}
			r, serr := conn.Send(ctx, "x.y.M", mustScript(i, nil, ops...), flags)
			if serr != nil {
				return fmt.Errorf("Send of call %d failed (a receive of call %d waiting concurrently: %v): %v", i, bgCall, bgCall >= 0, serr)
			}
			recvs[i] = r
			continue
		}
		r := recvs[i]
		if r == nil {
			return fmt.Errorf("HARNESS: receive before send for call %d", i)
		}
		if gated > 0 {
			// wait until the service has answered everything sent so far, then deliver it all in one go
			dl := time.Now().Add(bound)
			for proxy.S2C.pendingFrames() < gated {
				if time.Now().After(dl) {
					return fmt.Errorf("the service answered only %d of %d reply frames of the pipelined calls within %v", proxy.S2C.pendingFrames(), gated, bound)
				}
				time.Sleep(50 * time.Microsecond)
			}
			gated = 0
			proxy.S2C.openGate()
		}
		for k := 0; k <= c.Conts[i]; k++ {
			var raw json.RawMessage
			var fl uint64
			var rerr error
			if k == 0 && bgCall == i {
				select {
				case res := <-bgCh:
					fl, raw, rerr = res.fl, res.raw, res.err
				case <-time.After(2 * bound):
					return fmt.Errorf("pipelined calls (order %v): the receive of call %d that waited while later calls were sent did not return within %v", c.Order, i, 2*bound)
				}
				bgCall = -1
			} else {
				fl, rerr = r(ctx, &raw)
			}
			if rerr != nil {
				if isTimeoutErr(rerr) {
					return fmt.Errorf("pipelined calls (order %v): receive %d of call %d did not return within %v: a reply was lost", c.Order, k, i, bound)
				}
				return fmt.Errorf("pipelined calls (order %v): receive %d of call %d failed: %v", c.Order, k, i, rerr)
			}
			want := c.Docs[i]
			wantCont := false
			if k < c.Conts[i] {
				want, wantCont = json.RawMessage(fmt.Sprintf(`{"call":%d,"cont":%d}`, i, k)), true
			}
			if d := JSONDiff(want, raw); d != "" {
				return fmt.Errorf("pipelined calls (order %v): receive %d of call %d yielded %s, the handler of that call replied %s (replies are read in the order the calls were sent): %s", c.Order, k, i, Preview(raw), Preview(want), d)
			}
			if (fl&varlink.Continues != 0) != wantCont {
				return fmt.Errorf("pipelined calls: receive %d of call %d: Continues=%v, want %v", k, i, fl&varlink.Continues != 0, wantCont)
			}
			outstanding--
		}
		nextRecv = i + 1
	}
	return nil
}

func genPipe(t *rapid.T) PipeCase {
	n := rapid.IntRange(2, 5).Draw(t, "ncalls")
	c := PipeCase{Hold: rapid.IntRange(0, 3).Draw(t, "hold") != 0, CutsS2C: genProxyCuts(t, "s2c"), Conc: rapid.IntRange(0, 2).Draw(t, "conc") == 0}
	for i := 0; i < n; i++ {
		c.Docs = append(c.Docs, json.RawMessage(fmt.Sprintf(`{"call":%d,"doc":%s}`, i, DefaultJSON.Object(t, 2))))
		k := 0
		if rapid.IntRange(0, 3).Draw(t, "more") == 0 {
			k = rapid.IntRange(1, 3).Draw(t, "k")
		}
		c.Conts = append(c.Conts, k)
	}
	// a random interleaving in which every call is sent before it is received and receives keep the send order
	sent, recvd := 0, 0
	for recvd < n {
		canSend := sent < n
		canRecv := recvd < sent
		if canSend && (!canRecv || rapid.IntRange(0, 2).Draw(t, "sendfirst") != 0) {
			c.Order = append(c.Order, fmt.Sprintf("s%d", sent))
			sent++
		} else {
			c.Order = append(c.Order, fmt.Sprintf("r%d", recvd))
			recvd++
		}
	}
	if c.Hold {
		// with held replies a receive can only proceed once everything outstanding has been delivered, which needs
		// all sends issued before it to have completed - true by construction (sends are synchronous)
	}
	return c
}

func checkPipe(c PipeCase, st *Stats) error {
	err := execPipeline(c, protoBound)
	inter := false
	for i := 1; i < len(c.Order); i++ {
		if c.Order[i][0] == 's' && c.Order[i-1][0] == 'r' {
			inter = true // a call sent while earlier replies may still be buffered
		}
	}
	labels := []string{"pipelined"}
	if inter {
		labels = append(labels, "send-between-receives")
	}
	if c.Hold {
		labels = append(labels, "replies-of-several-calls-in-one-delivery")
	}
	if c.Conc {
		labels = append(labels, "receive-waiting-while-sending")
	}
	st.Case(HashOf(c), inter || c.Hold, func() interface{} { return c }, labels...)
	return err
}

var propC02Pipe = Register(Prop[PipeCase]{ID: "C02", Name: "C02pipe", Pending: true, Check: checkPipe})

func TestC02Pipeline(t *testing.T) {
	p := propC02Pipe
	p.Gen = genPipe
	RunRapid(t, p, "C02Pipeline")
}

// ---------------------------------------------------------------------------
// a multi-megabyte message followed at once by the sender's close, read slowly by the peer, on kernel sockets:
// a message whose write call returned is on the wire completely - closing must not cut it short.

// BigCloseCase: Dir "s2c" = the handler replies MiB mebibytes and fails, so the service closes right after the
// write; "c2s" = the client sends a oneway call of that size and closes its connection immediately.
type BigCloseCase struct {
	Transport string `json:"transport"` // tcp | unixfs
	Dir       string `json:"dir"`
	MiB       int    `json:"mib"`
	Salt      int    `json:"salt"`
}

func bigDoc(c BigCloseCase) json.RawMessage {
	unit := fmt.Sprintf("<%d \\\"q\\\" \\u0000 é 😀>", c.Salt)
	var sb strings.Builder
	sb.Grow(c.MiB<<20 + 64)
	sb.WriteString(`{"big":"`)
	for n := 0; sb.Len() < c.MiB<<20; n++ {
		sb.WriteString(unit)
		if n%1024 == 0 {
			fmt.Fprintf(&sb, "[%d]", n)
		}
	}
	sb.WriteString(`"}`)
	return json.RawMessage(sb.String())
}

func execBigClose(c BigCloseCase, bound time.Duration) error {
	bound *= WatchdogScale()
	env, err := startE2E([]string{"x.y"}, c.Transport, true)
	if err != nil {
		return err
	}
	defer env.stop(bound)
	doc := bigDoc(c)
	netw, target := "unix", strings.TrimPrefix(env.address, "unix:")
	if c.Transport == "tcp" {
		netw, target = "tcp", strings.TrimPrefix(env.address, "tcp:")
	}
	switch c.Dir {
	case "s2c":
		var raw net.Conn
		for dl := time.Now().Add(bound); ; {
			raw, err = net.DialTimeout(netw, target, time.Second)
			if err == nil {
				break
			}
			if time.Now().After(dl) {
				return fmt.Errorf("HARNESS: dial %s: %v", env.address, err)
			}
			time.Sleep(time.Millisecond)
		}
		defer raw.Close()
		call := EncodeCall("x.y.M", mustScript(0, nil, Op{Op: "reply", P: doc}, Op{Op: "fail"}), false, false, false)
		go raw.Write(append(call, 0))
		// read slowly until the service closes
		var got []byte
		buf := make([]byte, 256<<10)
		raw.SetReadDeadline(time.Now().Add(3 * bound))
		var rerr error
		for {
			n, e := raw.Read(buf)
			got = append(got, buf[:n]...)
			if e != nil {
				rerr = e
				break
			}
			time.Sleep(time.Millisecond)
		}
		if ne, ok := rerr.(net.Error); ok && ne.Timeout() {
			return fmt.Errorf("the service did not close the connection after its handler failed (hung for %v; %d bytes received, %d invocations)", 3*bound, len(got), env.log.Len())
		}
		if len(got) == 0 || got[len(got)-1] != 0 || bytes.IndexByte(got, 0) != len(got)-1 {
			return fmt.Errorf("%s: the handler's reply of %d MiB was written completely (Reply returned nil) and the connection then closed, but the client received %d bytes that are not one NUL-terminated frame (the read ended with: %v)", c.Transport, c.MiB, len(got), rerr)
		}
		var r struct {
			Parameters json.RawMessage `json:"parameters"`
		}
		if jerr := json.Unmarshal(got[:len(got)-1], &r); jerr != nil {
			return fmt.Errorf("%s: the %d MiB reply is not valid JSON on the wire: %v", c.Transport, c.MiB, jerr)
		}
		if d := JSONDiff(doc, r.Parameters); d != "" {
			return fmt.Errorf("%s: the %d MiB reply arrived changed: %s", c.Transport, c.MiB, d)
		}
	case "c2s":
		ctx, cancel := context.WithTimeout(context.Background(), 3*bound)
		defer cancel()
		conn, _, derr := env.dial(E2ECase{Transport: c.Transport}, bound)
		if derr != nil {
			return derr
		}
		// the service is kept busy for a moment so that the big call is not drained while it is being written
		if _, serr := conn.Send(ctx, "x.y.M", mustScript(0, nil, Op{Op: "sleep", N: 150}), varlink.Oneway); serr != nil {
			conn.Close()
			return fmt.Errorf("Send of the first oneway call failed: %v", serr)
		}
		_, serr := conn.Send(ctx, "x.y.M", mustScript(1, doc), varlink.Oneway)
		conn.Close()
		if serr != nil {
			return fmt.Errorf("Send of a oneway call with %d MiB of parameters failed: %v", c.MiB, serr)
		}
		dl := time.Now().Add(3 * bound)
		for env.log.Len() < 2 {
			// (the first call has been dispatched, so the connection was accepted; no handler is active any more, so it has ended)
			if env.log.Len() >= 1 && activeConns(env.svc) == 0 {
				time.Sleep(20 * time.Millisecond)
				if env.log.Len() < 2 {
					return fmt.Errorf("%s: Send of a oneway call with %d MiB of parameters returned nil and the client closed its connection, but the service's connection ended without the call having been dispatched: the message was cut short", c.Transport, c.MiB)
				}
			}
			if time.Now().After(dl) {
				return fmt.Errorf("the big oneway call was not dispatched within %v", 3*bound)
			}
			time.Sleep(time.Millisecond)
		}
		inv := env.log.All()[1]
		var sp ScriptParams
		if jerr := json.Unmarshal(inv.Params, &sp); jerr != nil {
			return fmt.Errorf("the handler received parameters that are not valid JSON: %v", jerr)
		}
		if d := JSONDiff(doc, sp.Pad); d != "" {
			return fmt.Errorf("%s: the %d MiB parameters arrived changed: %s", c.Transport, c.MiB, d)
		}
	default:
		return fmt.Errorf("HARNESS: dir %q", c.Dir)
	}
	return nil
}

var propC02BigClose = Register(Prop[BigCloseCase]{ID: "C02", Name: "C02bigclose", Check: func(c BigCloseCase, st *Stats) error {
	err := execBigClose(c, protoBound)
	st.Case(HashOf(c), true, func() interface{} { return c }, "big-message-then-close", "transport:"+c.Transport, "dir:"+c.Dir)
	return err
}})

func TestC02BigClose(t *testing.T) {
	sizes := []int{6, 16}
	reps := 1
	if Thorough() {
		sizes, reps = []int{3, 8, 16, 24, 40}, 3
	}
	var cases []BigCloseCase
	for r := 0; r < reps; r++ {
		for _, tr := range []string{"tcp", "unixfs"} {
			for _, d := range []string{"s2c", "c2s"} {
				for _, m := range sizes {
					cases = append(cases, BigCloseCase{Transport: tr, Dir: d, MiB: m, Salt: r*100 + m})
				}
			}
		}
	}
	shard, nshards := Shard()
	i := 0
	RunCases(t, propC02BigClose, "C02BigClose", true, func() (BigCloseCase, bool) {
		for i < len(cases) {
			k := i
			i++
			if k%nshards == shard {
				return cases[k], true
			}
		}
		return BigCloseCase{}, false
	})
}
