package props

// Generator of interface descriptions inside the domain of C07/C08: every named reference
// resolves to a declared alias, field names are distinct per list, method input and output are
// struct-typed, member names avoid the generator's fixed identifiers.

import (
	"fmt"
	"strings"

	"pgregory.net/rapid"
)

var goKeywords = []string{"break", "case", "chan", "const", "continue", "default", "defer", "else", "fallthrough", "for", "func", "go", "goto", "if", "import",
	"interface", "map", "package", "range", "return", "select", "struct", "switch", "type", "var"}
var generatorLocals = []string{"in", "out", "err", "err_", "c", "ctx", "m", "s", "call", "flags", "receive", "conn", "param", "e", "fmt", "json", "varlink", "context",
	"error", "string", "int", "bool", "float", "object", "method", "nil", "true", "len", "int64", "methodname", "name"}

// names the emitted code itself defines or calls (a member with such a name is outside the statement's domain)
var generatorFixedIdents = map[string]bool{"VarlinkCall": true, "VarlinkInterface": true, "VarlinkNew": true, "VarlinkDispatch": true, "VarlinkGetName": true,
	"VarlinkGetDescription": true, "Error": true, "MethodNotImplemented": true, "MethodNotFound": true, "InvalidParameter": true, "InterfaceNotFound": true}

// C07Opts steers the generator and carries the exclusions made by construction.
type C07Opts struct {
	NoErrorFieldInErrors bool // known finding: an error parameter named "error" clashes with the Error() method
}

func genFieldNameC07(t *rapid.T, label string) string {
	switch rapid.IntRange(0, 9).Draw(t, label+"k") {
	case 0:
		return rapid.SampledFrom(goKeywords).Draw(t, label+"kw")
	case 1:
		return rapid.SampledFrom(generatorLocals).Draw(t, label+"loc")
	case 2:
		return rapid.SampledFrom(idlKeywords).Draw(t, label+"idl")
	default:
		return rapid.StringMatching(`[a-z](_?[A-Za-z0-9]){0,6}`).Draw(t, label)
	}
}

func genMemberNameC07(t *rapid.T, label string) string {
	for {
		s := rapid.StringMatching(`[A-Z][A-Za-z0-9]{0,7}`).Draw(t, label)
		if rapid.IntRange(0, 9).Draw(t, label+"odd") == 0 {
			s = rapid.SampledFrom([]string{"Call", "Send", "Upgrade", "Reply", "String", "Type", "Interface", "Context", "Json", "Fmt", "In", "Out", "Varlink", "M", "New", "Dispatch"}).Draw(t, label+"oddv")
		}
		if !generatorFixedIdents[s] {
			return s
		}
	}
}

type c07gen struct {
	t       *rapid.T
	aliases []string // aliases that may be referenced at this point
	self    string   // alias currently being defined (may be referenced under ? [] [string])
	maxD    int
	opts    C07Opts
	inError bool
}

func (g *c07gen) ty(depth int, guarded bool) *Ty {
	t := g.t
	max := 10
	if depth >= g.maxD {
		max = 5
	}
	switch k := rapid.IntRange(0, max).Draw(t, "tk"); k {
	case 0, 1, 2, 3, 4:
		return tyBuiltin(builtinKinds[k])
	case 5:
		cands := append([]string(nil), g.aliases...)
		if guarded && g.self != "" {
			cands = append(cands, g.self)
		}
		if len(cands) == 0 {
			return tyBuiltin("int")
		}
		return &Ty{K: "alias", Alias: rapid.SampledFrom(cands).Draw(t, "alias")}
	case 6:
		e := g.ty(depth+1, true)
		if e.K == "maybe" {
			return e
		}
		return &Ty{K: "maybe", Elem: e}
	case 7:
		return &Ty{K: "array", Elem: g.ty(depth+1, true)}
	case 8:
		return &Ty{K: "map", Elem: g.ty(depth+1, true)}
	case 9:
		return g.list(depth+1, guarded)
	default:
		n := rapid.IntRange(1, 4).Draw(t, "nenum")
		out := &Ty{K: "enum"}
		for _, nm := range distinctNames(t, n, genFieldNameC07, "ename") {
			out.Fields = append(out.Fields, Field{Name: nm})
		}
		return out
	}
}

func (g *c07gen) list(depth int, guarded bool) *Ty {
	t := g.t
	maxf := 4
	if depth >= g.maxD {
		maxf = 1
	}
	n := rapid.IntRange(0, maxf).Draw(t, "nfields")
	out := &Ty{K: "struct"}
	for _, nm := range distinctNames(t, n, genFieldNameC07, "fname") {
		if g.inError && depth <= 1 && nm == "error" && g.opts.NoErrorFieldInErrors {
			nm = "error_"
		}
		out.Fields = append(out.Fields, Field{Name: nm, T: g.ty(depth+1, guarded)})
	}
	return out
}

// GenIfaceC07 draws a description tree in the C07 domain.
func GenIfaceC07(t *rapid.T, maxMembers int, opts C07Opts) *Iface {
	i := &Iface{Name: genInterfaceName(t)}
	if rapid.IntRange(0, 7).Draw(t, "toolword") == 0 {
		// a last word the go tool would read as a file-name constraint if it survived into the file name after an underscore
		i.Name += "-" + rapid.SampledFrom([]string{"test", "windows", "linux", "darwin", "amd64", "arm64", "386", "js", "wasm", "unix"}).Draw(t, "toolwordv")
	}
	i.DocMode = "none"
	if rapid.Bool().Draw(t, "idoc") {
		i.DocMode, i.Doc = "block", genDocLinesC07(t)
	}
	n := rapid.IntRange(1, maxMembers).Draw(t, "nmembers")
	names := distinctNames(t, n, genMemberNameC07, "mname")
	g := &c07gen{t: t, maxD: rapid.IntRange(1, 5).Draw(t, "maxdepth"), opts: opts}
	// decide kinds first so that aliases declared anywhere can be referenced everywhere (forward references are legal)
	kinds := make([]string, n)
	methodAt := rapid.IntRange(0, n-1).Draw(t, "methodAt")
	for k := range kinds {
		switch r := rapid.IntRange(0, 5).Draw(t, "mkind"); {
		case k == methodAt || r <= 1:
			kinds[k] = "method"
		case r <= 3:
			kinds[k] = "type"
		default:
			kinds[k] = "error"
		}
	}
	var allAliases []string
	for k, kd := range kinds {
		if kd == "type" {
			allAliases = append(allAliases, names[k])
		}
	}
	done := []string{}
	for k := 0; k < n; k++ {
		m := Member{Name: names[k], Kind: kinds[k], DocMode: "none"}
		if rapid.IntRange(0, 2).Draw(t, "mdoc") == 0 {
			m.DocMode, m.Doc = "block", genDocLinesC07(t)
		}
		switch kinds[k] {
		case "method":
			g.aliases, g.self, g.inError = allAliases, "", false
			m.In = g.list(0, true)
			m.Out = g.list(0, true)
		case "type":
			// an alias may only refer to aliases defined before it (no cycles), and to itself under ? [] [string]
			g.aliases, g.self, g.inError = done, names[k], false
			if rapid.IntRange(0, 5).Draw(t, "aliasenum") == 0 {
				en := &Ty{K: "enum"}
				for _, nm := range distinctNames(t, rapid.IntRange(1, 4).Draw(t, "nenum"), genFieldNameC07, "ename") {
					en.Fields = append(en.Fields, Field{Name: nm})
				}
				m.T = en
			} else {
				m.T = g.list(0, false)
			}
			done = append(done, names[k])
		default:
			g.aliases, g.self, g.inError = allAliases, "", true
			if rapid.IntRange(0, 3).Draw(t, "typeless") != 0 {
				m.T = g.list(0, true)
			}
		}
		i.Members = append(i.Members, m)
	}
	return i
}

var docWords = []string{"plain words", "with `backticks` inside", "mentions fmt.Sprintf and json.RawMessage", "context.Context here", "*/ and /* and //", "quotes \" and '", "unicode é😀", "tab\there", "trailing backtick `", "`", "@IMPORTS@", "package main", "%v %s %d",
	// texts the go tool or gofmt would read as directives if they stood in a line comment of the generated file
	"+build ignore", "+build windows,386 !cgo", "go:build ignore", "go:generate false", "line x.go:1", "export F", "go:embed x", "+build */ ignore"}

func genDocLinesC07(t *rapid.T) []string {
	n := rapid.IntRange(1, 3).Draw(t, "ndoc")
	var out []string
	for k := 0; k < n; k++ {
		out = append(out, rapid.SampledFrom(docWords).Draw(t, "docw"))
	}
	return out
}

// RenderC07 prints the tree in a plain, valid layout: doc blocks directly above their member, one
// member per paragraph, the chosen line ending, and a generated number of trailing newlines.
func RenderC07(i *Iface, eol string, trailing int, fieldsPerLine bool) string {
	var b strings.Builder
	doc := func(lines []string) {
		for _, l := range lines {
			if l == "" {
				b.WriteString("#" + eol)
			} else {
				b.WriteString("# " + l + eol)
			}
		}
	}
	doc(i.Doc)
	b.WriteString("interface " + i.Name + eol)
	var ty func(t *Ty, ind string)
	ty = func(t *Ty, ind string) {
		switch t.K {
		case "alias":
			b.WriteString(t.Alias)
		case "array":
			b.WriteString("[]")
			ty(t.Elem, ind)
		case "map":
			b.WriteString("[string]")
			ty(t.Elem, ind)
		case "maybe":
			b.WriteString("?")
			ty(t.Elem, ind)
		case "struct", "enum":
			b.WriteString("(")
			for k, f := range t.Fields {
				if k > 0 {
					b.WriteString(",")
				}
				if fieldsPerLine {
					b.WriteString(eol + ind + "  ")
				} else if k > 0 {
					b.WriteString(" ")
				}
				b.WriteString(f.Name)
				if f.T != nil {
					b.WriteString(": ")
					ty(f.T, ind+"  ")
				}
			}
			if fieldsPerLine && len(t.Fields) > 0 {
				b.WriteString(eol + ind)
			}
			b.WriteString(")")
		default:
			b.WriteString(t.K)
		}
	}
	for _, m := range i.Members {
		b.WriteString(eol)
		doc(m.Doc)
		switch m.Kind {
		case "type":
			b.WriteString("type " + m.Name + " ")
			ty(m.T, "")
		case "error":
			b.WriteString("error " + m.Name)
			if m.T != nil {
				b.WriteString(" ")
				ty(m.T, "")
			}
		default:
			b.WriteString("method " + m.Name)
			ty(m.In, "")
			b.WriteString(" -> ")
			ty(m.Out, "")
		}
		b.WriteString(eol)
	}
	s := strings.TrimRight(b.String(), "\r\n")
	return s + strings.Repeat(eol, trailing)
}

// tyStats classifies which constructor occurs at which position (coverage table of C07).
func tyCells(pos string, t *Ty, cells map[string]bool, depth int) {
	if t == nil {
		cells[pos+":typeless"] = true
		return
	}
	if depth > 0 {
		cells[fmt.Sprintf("%s:%s", pos, t.K)] = true
	}
	if t.Elem != nil {
		cells[fmt.Sprintf("%s:%s-of-%s", pos, t.K, t.Elem.K)] = true
		tyCells(pos, t.Elem, cells, depth+1)
	}
	for _, f := range t.Fields {
		if f.T != nil {
			tyCells(pos, f.T, cells, depth+1)
		}
	}
}
