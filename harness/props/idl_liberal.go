package props

// IDLNormalise and IDLLiberal: the two reference pieces of the C06 oracle.
//
// IDLLiberal is a recogniser for the MOST LIBERAL reading of the varlink interface
// grammar: whitespace and comments optional between any two tokens (also after a
// member keyword, inside "[ ]" / "[ string ]"), any type in any position (alias body,
// method input/output, error parameters), typeless errors, liberal names.  It accepts
// a superset of everything a correct parser may accept; its rejection is therefore a
// sound "ill-formed under even the most liberal reading".  It is a position-set
// (memoised, backtracking-free) recogniser so ambiguity costs nothing.

import "strings"

// IDLNormalise deletes comments ('#' to end of line) and then all of " \t\r\n".
func IDLNormalise(s string) string {
	var b strings.Builder
	b.Grow(len(s))
	in := false
	for i := 0; i < len(s); i++ {
		c := s[i]
		if in {
			if c == '\n' {
				in = false
			}
			continue
		}
		switch c {
		case '#':
			in = true
		case ' ', '\t', '\r', '\n':
		default:
			b.WriteByte(c)
		}
	}
	return b.String()
}

// CommentHasOddLineEnd reports whether some comment contains a lone CR, U+2028 or
// U+2029 (where the comment ends is then arguable; such inputs are don't-care for the
// re-print comparison).
func CommentHasOddLineEnd(s string) bool {
	in := false
	for i := 0; i < len(s); i++ {
		c := s[i]
		if !in {
			if c == '#' {
				in = true
			}
			continue
		}
		if c == '\n' {
			in = false
			continue
		}
		if c == '\r' && !(i+1 < len(s) && s[i+1] == '\n') {
			return true
		}
		if c == 0xE2 && i+2 < len(s) && s[i+1] == 0x80 && (s[i+2] == 0xA8 || s[i+2] == 0xA9) {
			return true
		}
	}
	return false
}

type posSet []int // sorted, unique

func addPos(s posSet, p int) posSet {
	for _, x := range s {
		if x == p {
			return s
		}
	}
	return append(s, p)
}

type liberal struct {
	in       string
	typeMemo map[int]posSet
	steps    int
	overflow bool
}

const liberalStepLimit = 5_000_000

func (l *liberal) ws(p int) int {
	for p < len(l.in) {
		c := l.in[p]
		if c == ' ' || c == '\t' || c == '\r' || c == '\n' {
			p++
		} else if c == '#' {
			for p < len(l.in) && l.in[p] != '\n' {
				p++
			}
		} else {
			break
		}
	}
	return p
}

func isWordByte(c byte) bool {
	return c >= 'a' && c <= 'z' || c >= 'A' && c <= 'Z' || c >= '0' && c <= '9' || c == '_'
}

// word returns the end of the maximal run of [A-Za-z0-9_] at p.
func (l *liberal) word(p int) int {
	for p < len(l.in) && isWordByte(l.in[p]) {
		p++
	}
	return p
}

func (l *liberal) lit(p int, s string) (int, bool) {
	if strings.HasPrefix(l.in[p:], s) {
		return p + len(s), true
	}
	return p, false
}

// typ returns all end positions of a type starting exactly at p (no leading ws).
func (l *liberal) typ(p int) posSet {
	if v, ok := l.typeMemo[p]; ok {
		return v
	}
	l.steps++
	if l.steps > liberalStepLimit {
		l.overflow = true
		return nil
	}
	var out posSet
	if p >= len(l.in) {
		l.typeMemo[p] = nil
		return nil
	}
	switch c := l.in[p]; {
	case c == '?':
		// optional; "??" is excluded by the statement (an optional never directly wraps an optional)
		q := l.ws(p + 1)
		if q < len(l.in) && l.in[q] != '?' {
			for _, e := range l.typ(q) {
				out = addPos(out, e)
			}
		}
	case c == '[':
		q := l.ws(p + 1)
		if r, ok := l.lit(q, "string"); ok && (r >= len(l.in) || !isWordByte(l.in[r])) {
			q = l.ws(r)
		}
		if q < len(l.in) && l.in[q] == ']' {
			q = l.ws(q + 1)
			for _, e := range l.typ(q) {
				out = addPos(out, e)
			}
		}
	case c == '(':
		for _, e := range l.list(p) {
			out = addPos(out, e)
		}
	case isWordByte(c):
		// builtin or named reference: any word; also every proper prefix that is followed
		// by more word bytes is NOT a separate token (maximal munch), so one end position.
		out = addPos(out, l.word(p))
	}
	l.typeMemo[p] = out
	return out
}

// list: '(' ws ')' | '(' ws field (ws ',' ws field)* ws ')' — all typed or all bare.
func (l *liberal) list(p int) posSet {
	var out posSet
	q := l.ws(p + 1)
	if q < len(l.in) && l.in[q] == ')' {
		return posSet{q + 1}
	}
	// typed fields: state = set of positions after a complete field
	for _, typed := range []bool{true, false} {
		cur := posSet{q}
		first := true
		seen := map[int]bool{}
		for len(cur) > 0 {
			var after posSet
			for _, s := range cur {
				if !first {
					// expect ',' at s (after ws)
					s = l.ws(s)
					if s >= len(l.in) || l.in[s] != ',' {
						continue
					}
					s = l.ws(s + 1)
				}
				// field name: a word not starting with a digit
				if s >= len(l.in) || !isWordByte(l.in[s]) || (l.in[s] >= '0' && l.in[s] <= '9') {
					continue
				}
				e := l.word(s)
				if typed {
					e = l.ws(e)
					if e >= len(l.in) || l.in[e] != ':' {
						continue
					}
					e = l.ws(e + 1)
					for _, te := range l.typ(e) {
						after = addPos(after, te)
					}
				} else {
					after = addPos(after, e)
				}
			}
			first = false
			var next posSet
			for _, a := range after {
				c := l.ws(a)
				if c < len(l.in) && l.in[c] == ')' {
					out = addPos(out, c+1)
				}
				if !seen[a] {
					seen[a] = true
					next = addPos(next, a)
				}
			}
			cur = next
		}
	}
	return out
}

// IDLLiberal reports whether s is a description under the most liberal reading.
// ok=false with overflow=true means the recogniser gave up (treated as "accept" by callers,
// i.e. nothing is demanded).
func IDLLiberal(s string) (accept bool, overflow bool) {
	l := &liberal{in: s, typeMemo: map[int]posSet{}}
	p := l.ws(0)
	p, ok := l.lit(p, "interface")
	if !ok {
		return false, false
	}
	p = l.ws(p)
	// interface name: labels of [A-Za-z0-9-]+ separated by '.', at least two labels
	labels := 0
	for {
		st := p
		for p < len(s) && (isWordByte(s[p]) && s[p] != '_' || s[p] == '-') {
			p++
		}
		if p == st {
			return false, false
		}
		labels++
		if p < len(s) && s[p] == '.' {
			p++
			continue
		}
		break
	}
	if labels < 2 {
		return false, false
	}
	// members: set of positions where a member may start (after ws)
	cur := posSet{p}
	seen := map[int]bool{}
	methods := map[int]bool{} // positions reachable having seen ≥1 method
	hasMethod := map[int]bool{}
	_ = methods
	type state struct {
		pos    int
		method bool
	}
	work := []state{{p, false}}
	visited := map[state]bool{}
	_ = cur
	_ = seen
	_ = hasMethod
	for len(work) > 0 {
		st := work[len(work)-1]
		work = work[:len(work)-1]
		if visited[st] {
			continue
		}
		visited[st] = true
		q := l.ws(st.pos)
		if q >= len(s) {
			if st.method {
				return true, l.overflow
			}
			continue
		}
		for _, kw := range []string{"type", "method", "error"} {
			r, ok := l.lit(q, kw)
			if !ok {
				continue
			}
			r = l.ws(r)
			// member name: a word
			e := l.word(r)
			if e == r {
				continue
			}
			// the name may be any non-empty prefix of the word only if what follows can
			// still start a type; maximal munch is the only tokenisation a grammar allows,
			// so take the whole word.
			switch kw {
			case "type":
				for _, te := range l.typ(l.ws(e)) {
					work = append(work, state{te, st.method})
				}
			case "error":
				work = append(work, state{e, st.method}) // typeless
				for _, te := range l.typ(l.ws(e)) {
					work = append(work, state{te, st.method})
				}
			case "method":
				for _, ie := range l.typ(l.ws(e)) {
					a := l.ws(ie)
					if a2, ok := l.lit(a, "->"); ok {
						for _, oe := range l.typ(l.ws(a2)) {
							work = append(work, state{oe, true})
						}
					}
				}
			}
		}
		if l.overflow {
			return true, true
		}
	}
	return false, l.overflow
}
