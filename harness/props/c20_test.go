package props

// C20 Socket activation picks the right inherited descriptor or none.
//
// Every configuration runs in a fresh child (this test binary in helper mode) that inherits three
// descriptors (3, 4, 5), sets LISTEN_PID itself and calls Service.Listen with a fallback address.
// The parent then asks every candidate endpoint for GetInfo: exactly the one the model predicts may
// answer with the child's token.

import (
	"bytes"
	"encoding/json"
	"fmt"
	"net"
	"os"
	"os/exec"
	"regexp"
	"strconv"
	"strings"
	"sync"
	"sync/atomic"
	"testing"
	"time"

	"pgregory.net/rapid"
)

// C20Case is one activation environment.
type C20Case struct {
	PID    string `json:"pid"`   // own | other | unset | <garbage literal>
	FDS    string `json:"fds"`   // "\x00unset" = variable not set
	Names  string `json:"names"` // "\x00unset" = variable not set
	Kind   string `json:"kind"`  // kind of the descriptor the model selects (or of fd 3 when none): unix | tcp | file | pipe
	Origin string `json:"origin,omitempty"`
	// BadAddr: the address argument given to Listen when the model selects an inherited socket (it must be
	// ignored, whatever it is). "" = a valid fallback address is passed.
	BadAddr string `json:"bad_addr,omitempty"`
	// StderrSock: the child's descriptor 2 is a listening socket too (a service whose stderr is a socket, as under a
	// journal): only descriptors from 3 on are ever candidates
	StderrSock bool `json:"stderr_sock,omitempty"`
}

const envUnset = "\x00unset"

var strictPosInt = regexp.MustCompile(`^[1-9][0-9]{0,8}$`)

// modelActivation returns the index (0-based, fd = 3+index) the statement selects, -1 for fallback, -2 for don't-care.
func modelActivation(c C20Case) int {
	if c.PID != "own" {
		return -1
	}
	if c.FDS == envUnset {
		return -1
	}
	if !strictPosInt.MatchString(c.FDS) {
		// clearly not a positive integer => fallback; spellings whose reading is arguable => don't care
		if n, err := strconv.Atoi(c.FDS); err != nil || n < 1 {
			if _, err2 := strconv.ParseInt(strings.TrimSpace(c.FDS), 10, 64); err2 == nil && err != nil {
				return -2 // e.g. " 1": an integer with blanks
			}
			return -1
		}
		return -2 // "+2", "03", ...
	}
	n, _ := strconv.Atoi(c.FDS)
	if n == 1 {
		return 0
	}
	if c.Names == envUnset {
		return -1
	}
	names := strings.Split(c.Names, ":")
	if len(names) != n {
		return -1
	}
	for i, nm := range names {
		if nm == "varlink" {
			return i
		}
	}
	return -1
}

var c20Counter int64

type c20Endpoint struct {
	network, addr string
	closer        func()
}

func c20Probe(ep c20Endpoint, token string, window time.Duration) bool {
	c, err := net.DialTimeout(ep.network, ep.addr, window)
	if err != nil {
		return false
	}
	defer c.Close()
	c.SetDeadline(time.Now().Add(window))
	if _, err := c.Write(append(append([]byte(nil), sentinelFrame...), 0)); err != nil {
		return false
	}
	var got []byte
	buf := make([]byte, 4096)
	for !bytes.Contains(got, []byte{0}) {
		n, err := c.Read(buf)
		got = append(got, buf[:n]...)
		if err != nil {
			return false
		}
	}
	fr, _ := SplitFrames(got)
	var m struct {
		Parameters struct {
			Vendor string `json:"vendor"`
		} `json:"parameters"`
	}
	return len(fr) > 0 && json.Unmarshal(fr[0], &m) == nil && m.Parameters.Vendor == token
}

func execC20(c C20Case, bound time.Duration) (string, error) {
	bound *= WatchdogScale()
	id := fmt.Sprintf("%d-%d", os.Getpid(), atomic.AddInt64(&c20Counter, 1))
	token := "token-" + id
	want := modelActivation(c)
	sel := want
	if sel < 0 {
		sel = 0
	}
	if sel > 2 {
		return "", fmt.Errorf("HARNESS: selected index %d beyond the three inherited descriptors", sel)
	}
	var files []*os.File
	var eps []c20Endpoint // eps[i] for inherited i (network "" when not a socket)
	defer func() {
		for _, f := range files {
			f.Close()
		}
		for _, e := range eps {
			if e.closer != nil {
				e.closer()
			}
		}
	}()
	for i := 0; i < 3; i++ {
		kind := "unix"
		if i == sel {
			kind = c.Kind
		}
		switch kind {
		case "unix":
			name := fmt.Sprintf("@verif-c20-%s-%d", id, i)
			l, err := net.Listen("unix", name)
			if err != nil {
				return "", fmt.Errorf("HARNESS: %v", err)
			}
			f, err := l.(*net.UnixListener).File()
			if err != nil {
				return "", fmt.Errorf("HARNESS: %v", err)
			}
			files = append(files, f)
			eps = append(eps, c20Endpoint{"unix", name, func() { l.Close() }})
		case "tcp":
			l, err := net.Listen("tcp", "127.0.0.1:0")
			if err != nil {
				return "", fmt.Errorf("HARNESS: %v", err)
			}
			f, err := l.(*net.TCPListener).File()
			if err != nil {
				return "", fmt.Errorf("HARNESS: %v", err)
			}
			files = append(files, f)
			eps = append(eps, c20Endpoint{"tcp", l.Addr().String(), func() { l.Close() }})
		case "file":
			f, err := os.CreateTemp("", "c20file")
			if err != nil {
				return "", fmt.Errorf("HARNESS: %v", err)
			}
			os.Remove(f.Name())
			files = append(files, f)
			eps = append(eps, c20Endpoint{})
		default: // pipe
			r, w, err := os.Pipe()
			if err != nil {
				return "", fmt.Errorf("HARNESS: %v", err)
			}
			files = append(files, r)
			eps = append(eps, c20Endpoint{closer: func() { w.Close() }})
		}
	}
	fallback := c20Endpoint{network: "unix", addr: "@verif-c20-" + id + "-fallback"}
	cmd := exec.Command(os.Args[0], "-test.run", "^$")
	env := []string{}
	for _, e := range os.Environ() {
		if !strings.HasPrefix(e, "LISTEN_") && !strings.HasPrefix(e, "VERIF_HELPER") {
			env = append(env, e)
		}
	}
	fbArg := "unix:" + fallback.addr
	victim := ""
	if c.BadAddr != "" && want >= 0 && (c.Kind == "unix" || c.Kind == "tcp") {
		fbArg = strings.TrimPrefix(c.BadAddr, "literal:")
		if c.BadAddr == "existing-file" {
			// the address names an existing filesystem object: since the address is ignored, it must not be touched
			f, ferr := os.CreateTemp("", "c20victim")
			if ferr != nil {
				return "", fmt.Errorf("HARNESS: %v", ferr)
			}
			f.WriteString("do not remove")
			f.Close()
			victim = f.Name()
			defer os.Remove(victim)
			fbArg = "unix:" + victim
		}
	}
	env = append(env, "VERIF_HELPER=activation", "VERIF_PID_MODE="+c.PID, "VERIF_TOKEN="+token, "VERIF_FALLBACK="+fbArg)
	if c.FDS != envUnset {
		env = append(env, "LISTEN_FDS="+c.FDS)
	}
	if c.Names != envUnset {
		env = append(env, "LISTEN_FDNAMES="+c.Names)
	}
	cmd.Env = env
	cmd.ExtraFiles = files
	var stderr bytes.Buffer
	cmd.Stderr = &stderr
	var stderrEp *c20Endpoint
	if c.StderrSock {
		name := fmt.Sprintf("@verif-c20-%s-stderr", id)
		l, lerr := net.Listen("unix", name)
		if lerr != nil {
			return "", fmt.Errorf("HARNESS: %v", lerr)
		}
		defer l.Close()
		f, ferr := l.(*net.UnixListener).File()
		if ferr != nil {
			return "", fmt.Errorf("HARNESS: %v", ferr)
		}
		defer f.Close()
		cmd.Stderr = f
		stderrEp = &c20Endpoint{network: "unix", addr: name}
	}
	stdin, err := cmd.StdinPipe()
	if err != nil {
		return "", fmt.Errorf("HARNESS: %v", err)
	}
	if err := cmd.Start(); err != nil {
		return "", fmt.Errorf("HARNESS: start child: %v", err)
	}
	exited := make(chan error, 1)
	go func() { exited <- cmd.Wait() }()
	stop := func() string {
		stdin.Close()
		select {
		case err := <-exited:
			if err != nil {
				return fmt.Sprintf("the child did not exit cleanly after Shutdown: %v; stderr: %s", err, Preview(stderr.Bytes()))
			}
			return ""
		case <-time.After(bound):
			cmd.Process.Kill()
			<-exited
			return "the child did not exit within the bound after its stdin was closed (Shutdown did not end serving)"
		}
	}
	all := append(append([]c20Endpoint(nil), eps...), fallback)
	names := []string{"inherited descriptor 3", "inherited descriptor 4", "inherited descriptor 5", "the fallback address"}
	if stderrEp != nil {
		all = append(all, *stderrEp)
		names = append(names, "descriptor 2 (the child's stderr, a listening socket)")
	}
	predicted := 3
	if want >= 0 {
		predicted = want
		if eps[want].network == "" {
			predicted = 3 // the selected descriptor is not a socket: fall back
		}
	}
	verdict := "fallback"
	if predicted < 3 {
		verdict = "activated"
	}
	// find who answers; the predicted endpoint is polled first and generously, which also proves the child is up
	answers := make([]bool, len(all))
	if want == -2 {
		verdict = "dont-care"
		dl := time.Now().Add(bound)
		up := false
		for !up && time.Now().Before(dl) {
			for i, ep := range all {
				if ep.network != "" && c20Probe(ep, token, 100*time.Millisecond) {
					answers[i], up = true, true
				}
			}
			select {
			case err := <-exited:
				exited <- err
				return verdict, fmt.Errorf("the child exited prematurely: %v; stderr: %s", err, Preview(stderr.Bytes()))
			default:
			}
		}
		if !up {
			stop()
			return verdict, fmt.Errorf("no endpoint answered within %v (the child serves nothing)", bound)
		}
	} else {
		dl := time.Now().Add(bound)
		for !answers[predicted] {
			if c20Probe(all[predicted], token, 300*time.Millisecond) {
				answers[predicted] = true
				break
			}
			select {
			case err := <-exited:
				exited <- err
				return verdict, fmt.Errorf("the child exited prematurely: %v; stderr: %s", err, Preview(stderr.Bytes()))
			default:
			}
			if time.Now().After(dl) {
				// who answers instead?
				var others []string
				for i, ep := range all {
					if i != predicted && ep.network != "" && c20Probe(ep, token, 300*time.Millisecond) {
						others = append(others, names[i])
					}
				}
				stop()
				return verdict, fmt.Errorf("the service must serve on %s but does not answer there within %v; answering instead: %v", names[predicted], bound, others)
			}
			time.Sleep(2 * time.Millisecond)
		}
		var pwg sync.WaitGroup
		for i, ep := range all {
			if i == predicted || ep.network == "" {
				continue
			}
			pwg.Add(1)
			go func(i int, ep c20Endpoint) {
				defer pwg.Done()
				answers[i] = c20Probe(ep, token, 150*time.Millisecond)
			}(i, ep)
		}
		pwg.Wait()
		for i := range all {
			if i != predicted && answers[i] {
				stop()
				return verdict, fmt.Errorf("the service must serve only on %s but also answers on %s", names[predicted], names[i])
			}
		}
	}
	if msg := stop(); msg != "" {
		return verdict, fmt.Errorf("%s", msg)
	}
	if victim != "" {
		if _, serr := os.Lstat(victim); serr != nil {
			return verdict, fmt.Errorf("socket activation was selected, so the address argument %q must be ignored, but the file it names was removed", "unix:"+victim)
		}
	}
	return verdict, nil
}

func checkC20(c C20Case, st *Stats) error {
	verdict, err := execC20(c, protoBound)
	want := modelActivation(c)
	nfds, _ := strconv.Atoi(c.FDS)
	nt := (want >= 0 && nfds >= 2) || (want == -1 && !(c.PID == "unset" && c.FDS == envUnset && c.Names == envUnset))
	why := "fallback:other"
	switch {
	case want >= 0:
		why = fmt.Sprintf("selected:fd%d", 3+want)
	case want == -2:
		why = "dont-care-spelling"
	case c.PID != "own":
		why = "fallback:pid-" + map[bool]string{true: c.PID, false: "garbage"}[c.PID == "other" || c.PID == "unset"]
	case c.FDS == envUnset || !strictPosInt.MatchString(c.FDS):
		why = "fallback:count"
	default:
		why = "fallback:names"
	}
	labels := []string{"verdict:" + verdict, why, "kind:" + c.Kind}
	if c.BadAddr != "" {
		labels = append(labels, "address-argument:refusable")
	}
	st.Case(HashOf(c), nt, func() interface{} { return c }, labels...)
	return err
}

var propC20 = Register(Prop[C20Case]{ID: "C20", Name: "C20", Check: checkC20})

func c20Names(variant string, n int) string {
	if n < 2 {
		n = 2
	}
	fill := func(k int, at ...int) string {
		p := make([]string, k)
		for i := range p {
			p[i] = fmt.Sprintf("n%d", i)
		}
		for _, a := range at {
			if a >= 0 && a < k {
				p[a] = "varlink"
			}
		}
		return strings.Join(p, ":")
	}
	switch variant {
	case "unset":
		return envUnset
	case "fewer":
		return fill(n-1, 0)
	case "more":
		return fill(n+1, 0)
	case "more-late":
		return fill(n+1, 1)
	case "first":
		return fill(n, 0)
	case "middle":
		return fill(n, n/2)
	case "last":
		return fill(n, n-1)
	case "twice":
		return fill(n, n-1, n-2)
	case "absent":
		return fill(n)
	case "near":
		return strings.Replace(fill(n, 0), "varlink", "Varlink", 1)
	case "suffix-before": // an entry that merely ends in "varlink" stands before the exact one (exact one last)
		p := strings.Split(fill(n, n-1), ":")
		if n >= 2 {
			p[0] = "io.systemd.journal-varlink"
		}
		return strings.Join(p, ":")
	case "prefix-before": // an entry that merely starts with "varlink" stands before the exact one
		p := strings.Split(fill(n, n-1), ":")
		if n >= 2 {
			p[0] = "varlink-control"
		}
		return strings.Join(p, ":")
	case "lookalikes-only": // right arity, every entry contains "varlink" but none equals it
		la := []string{"devvarlink", "varlinkd", "xvarlinkx", "varlink.", ".varlink", "varlink\tvarlink"}
		p := make([]string, n)
		for i := range p {
			p[i] = la[i%len(la)]
		}
		return strings.Join(p, ":")
	case "gap-right-arity": // an empty entry among exactly n entries, varlink last (for n = 2: ":varlink")
		p := strings.Split(fill(n, n-1), ":")
		p[0] = ""
		return strings.Join(p, ":")
	case "gap-extra": // n+1 entries of which one is empty: the arity is wrong, whatever the empty one is taken for
		p := strings.Split(fill(n+1, n), ":")
		p[(n+1)/2-0] = p[(n+1)/2-0]
		p[1] = ""
		if n == 2 {
			return "n0::varlink"
		}
		return strings.Join(p, ":")
	case "gap-trailing": // n entries followed by a trailing colon (= n+1 entries, the last one empty)
		return fill(n, 0) + ":"
	default:
		return ""
	}
}

// runParallel evaluates the cases with 8 workers (each case is a child process).
func runParallel(t *testing.T, name string, exhaustive bool, cases []C20Case) {
	st := NewStats(name)
	st.Exhaustive = exhaustive
	completed := false
	defer func() { st.Flush(completed) }()
	workers := 8
	var wg sync.WaitGroup
	var mu sync.Mutex
	var firstErr error
	var firstCase C20Case
	ch := make(chan C20Case)
	for w := 0; w < workers; w++ {
		wg.Add(1)
		go func() {
			defer wg.Done()
			for c := range ch {
				err := Guard(func() error { return checkC20(c, st) })
				if err != nil {
					mu.Lock()
					if firstErr == nil {
						firstErr, firstCase = err, c
					}
					mu.Unlock()
				}
			}
		}()
	}
	for _, c := range cases {
		mu.Lock()
		stop := firstErr != nil
		mu.Unlock()
		if stop {
			break
		}
		ch <- c
	}
	close(ch)
	wg.Wait()
	if firstErr != nil {
		SaveFailing("C20", "C20", firstCase, firstErr.Error())
		t.Fatalf("C20 violated: %v", firstErr)
	}
	completed = true
}

// TestC20Product: the full product from the statement.
func TestC20Product(t *testing.T) {
	var cases []C20Case
	for _, pid := range []string{"own", "other", "unset", "garbage"} {
		for _, fds := range []string{envUnset, "", "foo", "-1", "0", "1", "2", "3"} {
			n, _ := strconv.Atoi(fds)
			for _, nv := range []string{"unset", "fewer", "more", "more-late", "first", "middle", "last", "twice", "absent", "near", "suffix-before", "prefix-before", "lookalikes-only", "empty", "gap-right-arity", "gap-extra", "gap-trailing"} {
				for _, kind := range []string{"unix", "tcp", "file", "pipe"} {
					cases = append(cases, C20Case{PID: pid, FDS: fds, Names: c20Names(nv, n), Kind: kind, Origin: "product"})
				}
			}
		}
	}
	// where an inherited socket is selected the address argument must be ignored - also one that Bind would refuse
	n0 := len(cases)
	for i := 0; i < n0; i++ {
		c := cases[i]
		if modelActivation(c) >= 0 && (c.Kind == "unix" || c.Kind == "tcp") {
			for _, bad := range []string{"literal:", "literal:unix:", "literal:nonsense", "literal:udp:127.0.0.1:1", "existing-file"} {
				c2 := c
				c2.BadAddr, c2.Origin = bad, "product+bad-address"
				cases = append(cases, c2)
			}
		}
	}
	// the child's stderr is a listening socket as well: descriptor 2 is never a candidate, whatever the names say
	for i := 0; i < n0; i++ {
		c := cases[i]
		if c.PID == "own" && (c.FDS == "2" || c.FDS == "3" || c.FDS == "1") && c.Kind == "unix" {
			c.StderrSock, c.Origin = true, "product+stderr-socket"
			cases = append(cases, c)
		}
	}
	shard, nshards := Shard()
	var mine []C20Case
	for i, c := range cases {
		if i%nshards == shard {
			mine = append(mine, c)
		}
	}
	runParallel(t, "C20Product", true, mine)
}

func genC20(t *rapid.T) C20Case {
	c := C20Case{Kind: rapid.SampledFrom([]string{"unix", "unix", "tcp", "file", "pipe"}).Draw(t, "kind"), Origin: "random"}
	c.PID = rapid.SampledFrom([]string{"own", "own", "own", "other", "unset", "", "0", "-1", "1", "own ", "99999999999999999999", "abc"}).Draw(t, "pid")
	c.FDS = rapid.SampledFrom([]string{envUnset, "", "1", "2", "3", "2", "3", " 1", "1 ", "+2", "03", "002", "2.0", "0x2", "1e0", "99999999999999999999", "-2", "two", "１"}).Draw(t, "fds")
	n, _ := strconv.Atoi(strings.TrimLeft(c.FDS, "+0"))
	if n < 1 || n > 3 {
		n = rapid.IntRange(1, 3).Draw(t, "n")
	}
	c.StderrSock = rapid.IntRange(0, 5).Draw(t, "stderrsock") == 0
	if rapid.IntRange(0, 4).Draw(t, "namesunset") == 0 {
		c.Names = envUnset
		return c
	}
	k := n + rapid.IntRange(-1, 1).Draw(t, "arity")
	if k < 0 {
		k = 0
	}
	parts := make([]string, k)
	for i := range parts {
		parts[i] = rapid.SampledFrom([]string{"varlink", "varlink", "", "a", "Varlink", "varlink ", " varlink", "varlinkx", "var:link", "xvarlink", "a-varlink", "varlink.", ".varlink"}).Draw(t, "name")
	}
	c.Names = strings.Join(parts, ":")
	// keep the selected index within the three inherited descriptors
	if w := modelActivation(c); w > 2 {
		c.Names = "varlink:" + c.Names
	}
	return c
}

func TestC20Rapid(t *testing.T) {
	p := propC20
	p.Gen = func(t *rapid.T) C20Case {
		c := genC20(t)
		for tries := 0; modelActivation(c) > 2 && tries < 5; tries++ {
			c.Names = "varlink"
		}
		if modelActivation(c) > 2 {
			c.FDS = "1"
		}
		return c
	}
	RunRapid(t, p, "C20Rapid")
}
