package props

// Batch stage shared by C07 and C08: N generated packages are compiled together with a
// driver program (testdata/batch_main.go.txt) and per-package shims derived from the generated
// code's own type information; the driver executes a script of calls and writes observations.

import (
	"bytes"
	_ "embed"
	"encoding/json"
	"fmt"
	"go/types"
	"os"
	"os/exec"
	"path/filepath"
	"strings"
	"time"
)

//go:embed testdata/batch_main.go.txt
var batchMainSrc string

// BatchPkg is one generated package of a batch.
type BatchPkg struct {
	Key  string // unique key inside the batch
	Desc string
	Tree *Iface
	Src  []byte
	Pkg  string // Go package name
	Shim string // reg_<key>.go source
}

// BStep mirrors the driver's step type.
type BStep struct {
	Pkg    string            `json:"pkg"`
	Iface  string            `json:"iface"`
	Method string            `json:"method"`
	API    string            `json:"api"`
	Flags  uint64            `json:"flags"`
	In     []json.RawMessage `json:"in"`
	Impl   string            `json:"impl"`
	Raw    []byte            `json:"raw,omitempty"`
	Canned []byte            `json:"canned,omitempty"` // api call against a foreign peer that answers with this frame
	Closed bool              `json:"closed,omitempty"` // the connection is closed before the stub runs
	// CannedWant (canned steps): "" = the declared error Reply.Error of this interface; "generic:<full name>" = an error that
	// this description does not declare - the generic *varlink.Error carrying exactly that name; "reply" = success with Reply.Out
	CannedWant string `json:"canned_want,omitempty"`
	Reply  BReply            `json:"reply"`
	Recvs  int               `json:"recvs"`
}

// BReply mirrors the driver's replySpec.
type BReply struct {
	Kind      string              `json:"kind"`
	Error     string              `json:"error,omitempty"`
	Out       []json.RawMessage   `json:"out,omitempty"`
	Continues int                 `json:"continues,omitempty"`
	ContOut   [][]json.RawMessage `json:"cont_out,omitempty"`
}

// BImplObs etc. mirror the driver's observation types.
type BImplObs struct {
	Called    bool              `json:"called"`
	Method    string            `json:"method"`
	Args      []json.RawMessage `json:"args"`
	More      bool              `json:"more"`
	Oneway    bool              `json:"oneway"`
	Upgrade   bool              `json:"upgrade"`
	ReplyErrs []string          `json:"reply_errs"`
	Problem   string            `json:"problem,omitempty"`
}

type BRecvObs struct {
	Outs    []json.RawMessage `json:"outs"`
	Flags   uint64            `json:"flags"`
	HasConn bool              `json:"has_conn"`
	ErrType string            `json:"err_type,omitempty"`
	ErrJSON json.RawMessage   `json:"err_json,omitempty"`
	ErrStr  string            `json:"err_str,omitempty"`
}

type BStepObs struct {
	C2S     []byte     `json:"c2s"`
	S2C     []byte     `json:"s2c"`
	Impl    BImplObs   `json:"impl"`
	SendErr string     `json:"send_err,omitempty"`
	Recvs   []BRecvObs `json:"recvs"`
	Problem string     `json:"problem,omitempty"`
}

type BObservations struct {
	Pkgs map[string]struct {
		Name        string `json:"name"`
		Description string `json:"description"`
	} `json:"pkgs"`
	Steps []BStepObs `json:"steps"`
}

// makeShim derives the registration file from the generated code's type information.
func makeShim(key string, src []byte) (pkgName string, shim string, err error) {
	pkg, f, _, terr := typeCheckGenerated(src)
	if terr != nil {
		return "", "", terr
	}
	pkgName = f.Name.Name
	obj := pkg.Scope().Lookup(pkgName + "Interface")
	if obj == nil {
		return pkgName, "", fmt.Errorf("the generated package has no type %sInterface", pkgName)
	}
	iface, ok := obj.Type().Underlying().(*types.Interface)
	if !ok {
		return pkgName, "", fmt.Errorf("%sInterface is not an interface type", pkgName)
	}
	qual := func(p *types.Package) string {
		if p == pkg {
			return "pk"
		}
		return p.Name()
	}
	var b strings.Builder
	fmt.Fprintf(&b, "package main\n\nimport (\n\t\"context\"\n\t\"encoding/json\"\n\n\t\"github.com/varlink/go/varlink\"\n\tpk \"batch/gen/%s\"\n)\n\n", key)
	fmt.Fprintf(&b, "var _ json.RawMessage\nvar _ context.Context\nvar _ varlink.Call\n\n")
	fmt.Fprintf(&b, "type impl_%s struct{ h *handler }\n\n", key)
	var methods []string
	for i := 0; i < iface.NumMethods(); i++ {
		m := iface.Method(i)
		sig := m.Type().(*types.Signature)
		methods = append(methods, m.Name())
		fmt.Fprintf(&b, "func (i impl_%s) %s(ctx context.Context, c pk.VarlinkCall", key, m.Name())
		var args []string
		for k := 2; k < sig.Params().Len(); k++ {
			fmt.Fprintf(&b, ", a%d %s", k, types.TypeString(sig.Params().At(k).Type(), qual))
			args = append(args, fmt.Sprintf("a%d", k))
		}
		fmt.Fprintf(&b, ") error {\n\treturn i.h.Handle(ctx, %q, &c", m.Name())
		for _, a := range args {
			b.WriteString(", " + a)
		}
		b.WriteString(")\n}\n\n")
	}
	fmt.Fprintf(&b, "type embed_%s struct{ *pk.VarlinkInterface }\n\n", key)
	fmt.Fprintf(&b, "func init() {\n\tregistry[%q] = &pkgReg{Key: %q,\n\t\tNewImpl: func(h *handler) dispatcher { return pk.VarlinkNew(impl_%s{h}) },\n\t\tNewEmbed: func() dispatcher { return pk.VarlinkNew(embed_%s{}) },\n\t\tMethods: map[string]interface{}{\n", key, key, key, key)
	for _, m := range methods {
		fmt.Fprintf(&b, "\t\t\t%q: pk.%s(),\n", m, m)
	}
	b.WriteString("\t\t},\n\t}\n}\n")
	return pkgName, b.String(), nil
}

// buildBatch writes the module and compiles it; returns the binary path.
func buildBatch(dir string, pkgs []*BatchPkg) (string, error) {
	if err := os.MkdirAll(dir, 0o755); err != nil {
		return "", fmt.Errorf("HARNESS: %v", err)
	}
	gomod := fmt.Sprintf("module batch\n\ngo 1.23\n\nrequire github.com/varlink/go v0.0.0\n\nreplace github.com/varlink/go => %s\n", repoDir())
	if err := os.WriteFile(filepath.Join(dir, "go.mod"), []byte(gomod), 0o644); err != nil {
		return "", fmt.Errorf("HARNESS: %v", err)
	}
	if sum, err := os.ReadFile(filepath.Join(harnessDir(), "go.sum")); err == nil {
		os.WriteFile(filepath.Join(dir, "go.sum"), sum, 0o644)
	}
	if err := os.WriteFile(filepath.Join(dir, "main.go"), []byte(batchMainSrc), 0o644); err != nil {
		return "", fmt.Errorf("HARNESS: %v", err)
	}
	for _, p := range pkgs {
		gd := filepath.Join(dir, "gen", p.Key)
		if err := os.MkdirAll(gd, 0o755); err != nil {
			return "", fmt.Errorf("HARNESS: %v", err)
		}
		if err := os.WriteFile(filepath.Join(gd, p.Pkg+".go"), p.Src, 0o644); err != nil {
			return "", fmt.Errorf("HARNESS: %v", err)
		}
		if err := os.WriteFile(filepath.Join(dir, "reg_"+p.Key+".go"), []byte(p.Shim), 0o644); err != nil {
			return "", fmt.Errorf("HARNESS: %v", err)
		}
	}
	bin := filepath.Join(dir, "batch.bin")
	cmd := exec.Command("go", "build", "-o", bin, ".")
	cmd.Dir = dir
	cmd.Env = append(os.Environ(), "GOFLAGS=-mod=mod", "GOPROXY=off", "GOSUMDB=off", "GOTOOLCHAIN=local")
	out, err := cmd.CombinedOutput()
	if err != nil {
		return "", fmt.Errorf("go build of the generated packages failed: %v\n%s", err, trimLines(string(out), 25))
	}
	return bin, nil
}

// runBatch executes the script.
func runBatch(bin, dir string, steps []BStep) (*BObservations, error) {
	sb, _ := json.Marshal(steps)
	sp, op := filepath.Join(dir, "script.json"), filepath.Join(dir, "obs.json")
	if err := os.WriteFile(sp, sb, 0o644); err != nil {
		return nil, fmt.Errorf("HARNESS: %v", err)
	}
	cmd := exec.Command(bin, sp, op)
	var stderr bytes.Buffer
	cmd.Stderr = &stderr
	cmd.Stdout = &stderr
	if err := cmd.Start(); err != nil {
		return nil, fmt.Errorf("HARNESS: %v", err)
	}
	done := make(chan error, 1)
	go func() { done <- cmd.Wait() }()
	limit := time.Duration(60+len(steps)/4) * time.Second * WatchdogScale()
	select {
	case err := <-done:
		if err != nil {
			return nil, fmt.Errorf("the program built from the generated packages crashed or failed: %v\n%s", err, trimLines(stderr.String(), 30))
		}
	case <-time.After(limit):
		cmd.Process.Kill()
		<-done
		return nil, fmt.Errorf("HARNESS: the batch program did not finish within %v", limit)
	}
	ob, err := os.ReadFile(op)
	if err != nil {
		return nil, fmt.Errorf("HARNESS: %v", err)
	}
	var obs BObservations
	if err := json.Unmarshal(ob, &obs); err != nil {
		return nil, fmt.Errorf("HARNESS: observations do not decode: %v", err)
	}
	return &obs, nil
}
