package props

// C08 Generated stubs are a faithful typed binding of the description.
// (also TestC07Batch: the generated packages of a batch compile with the real compiler and report
// their interface name and description at run time)

import (
	"bytes"
	"encoding/json"
	"fmt"
	"math/big"
	"os"
	"path/filepath"
	"sort"
	"strconv"
	"strings"
	"testing"

	"github.com/varlink/go/varlink"
	"github.com/varlink/go/varlink/idl"
	"pgregory.net/rapid"
)

// ---------------------------------------------------------------------------
// abstract values = JSON text per the varlink mapping (model.WireValue)

type valueGen struct {
	t       *rapid.T
	aliases map[string]*Ty
}

var intSpellings = []string{"0", "1", "-1", "42", "9007199254740993", "-9007199254740993", "9223372036854775807", "-9223372036854775808", "4294967296", "-2147483649"}
var floatSpellings = []string{"0", "1.5", "-0.25", "1e308", "5e-324", "3.141592653589793", "-1e-7", "123456789.125", "2"}
var strSpellings = []string{"", "a", "é😀", "with \\\"quotes\\\" and \\\\", "\\u0000nul", "line\\nbreak", "<script>&amp;</script>", "\\u2028\\u2029", "  spaces  ", "null", "{}", "日本語"}

func (g valueGen) value(ty *Ty, depth int) string {
	t := g.t
	switch ty.K {
	case "bool":
		return rapid.SampledFrom([]string{"true", "false"}).Draw(t, "vb")
	case "int":
		if rapid.Bool().Draw(t, "vil") {
			return rapid.SampledFrom(intSpellings).Draw(t, "vi")
		}
		return strconv.FormatInt(rapid.Int64().Draw(t, "vi64"), 10)
	case "float":
		return rapid.SampledFrom(floatSpellings).Draw(t, "vf")
	case "string":
		return `"` + rapid.SampledFrom(strSpellings).Draw(t, "vs") + `"`
	case "object":
		return DefaultJSON.Value(t, 3)
	case "enum":
		return `"` + rapid.SampledFrom(ty.Fields).Draw(t, "ve").Name + `"`
	case "alias":
		return g.value(g.aliases[ty.Alias], depth+1)
	case "maybe":
		if depth > 6 || rapid.IntRange(0, 2).Draw(t, "vnull") == 0 {
			return "null"
		}
		return g.value(ty.Elem, depth+1)
	case "array":
		n := rapid.IntRange(0, 3).Draw(t, "vlen")
		if depth > 6 {
			n = 0
		}
		parts := make([]string, n)
		for i := range parts {
			parts[i] = g.value(ty.Elem, depth+1)
		}
		return "[" + strings.Join(parts, ",") + "]"
	case "map":
		n := rapid.IntRange(0, 3).Draw(t, "vlen")
		if depth > 6 {
			n = 0
		}
		keys := rapid.SampledFrom([][]string{{"a", "B", "ccc"}, {"", "é", "key with space"}, {"Title", "title", "TITLE"}, {"0", "null", "a.b"}}).Draw(t, "vkeys")
		var parts []string
		for i := 0; i < n; i++ {
			kb, _ := json.Marshal(keys[i])
			parts = append(parts, string(kb)+":"+g.value(ty.Elem, depth+1))
		}
		return "{" + strings.Join(parts, ",") + "}"
	case "struct":
		var parts []string
		for _, f := range ty.Fields {
			parts = append(parts, fmt.Sprintf("%q:%s", f.Name, g.value(f.T, depth+1)))
		}
		return "{" + strings.Join(parts, ",") + "}"
	}
	return "null"
}

func (g valueGen) fields(ty *Ty) []json.RawMessage {
	out := make([]json.RawMessage, len(ty.Fields))
	for i, f := range ty.Fields {
		out[i] = json.RawMessage(g.value(f.T, 0))
	}
	return out
}

func aliasMap(i *Iface) map[string]*Ty {
	m := map[string]*Ty{}
	for _, mem := range i.Members {
		if mem.Kind == "type" {
			m[mem.Name] = mem.T
		}
	}
	return m
}

func titleName(s string) string {
	if s == "" {
		return s
	}
	return strings.ToUpper(s[:1]) + s[1:]
}

// valueDiff compares got with want under type ty. tagged=false: got comes from marshalling an
// untagged anonymous Go struct (keys are the capitalised field names, absent optionals are null);
// tagged=true: keys are the IDL names (wire frames, named alias types, error values) and absent
// optionals are omitted or null.
func valueDiff(ty *Ty, aliases map[string]*Ty, want, got []byte, tagged bool, path string) string {
	isNull := func(b []byte) bool { return b == nil || string(bytes.TrimSpace(b)) == "null" }
	switch ty.K {
	case "alias":
		return valueDiff(aliases[ty.Alias], aliases, want, got, true, path)
	case "maybe":
		if isNull(want) {
			if !isNull(got) {
				return fmt.Sprintf("%s: absent optional arrived as %s", path, Preview(got))
			}
			return ""
		}
		if isNull(got) {
			return fmt.Sprintf("%s: optional value %s arrived as absent", path, Preview(want))
		}
		return valueDiff(ty.Elem, aliases, want, got, tagged, path)
	}
	if ty.K == "object" {
		if isNull(want) && isNull(got) {
			return ""
		}
		if d := JSONDiff(want, got); d != "" {
			return fmt.Sprintf("%s: object differs: %s", path, d)
		}
		return ""
	}
	if isNull(got) {
		// an empty array / map may legitimately be a nil slice / map on the Go side only if it never
		// was on the wire; the model never generates null for non-optional types
		return fmt.Sprintf("%s: got null, want %s", path, Preview(want))
	}
	switch ty.K {
	case "bool", "string", "enum":
		var a, b interface{}
		if json.Unmarshal(want, &a) != nil || json.Unmarshal(got, &b) != nil || a != b {
			return fmt.Sprintf("%s: got %s, want %s", path, Preview(got), Preview(want))
		}
	case "int":
		a, ok1 := new(big.Int).SetString(strings.TrimSpace(string(want)), 10)
		b, ok2 := new(big.Int).SetString(strings.TrimSpace(string(got)), 10)
		if !ok1 || !ok2 || a.Cmp(b) != 0 {
			return fmt.Sprintf("%s: got integer %s, want %s", path, Preview(got), Preview(want))
		}
	case "float":
		a, e1 := strconv.ParseFloat(strings.TrimSpace(string(want)), 64)
		b, e2 := strconv.ParseFloat(strings.TrimSpace(string(got)), 64)
		if e1 != nil || e2 != nil || a != b {
			return fmt.Sprintf("%s: got float %s, want %s", path, Preview(got), Preview(want))
		}
	case "object":
		if d := JSONDiff(want, got); d != "" {
			return fmt.Sprintf("%s: object differs: %s", path, d)
		}
	case "array":
		var a, b []json.RawMessage
		if json.Unmarshal(want, &a) != nil || json.Unmarshal(got, &b) != nil {
			return fmt.Sprintf("%s: got %s, want array %s", path, Preview(got), Preview(want))
		}
		if len(a) != len(b) {
			return fmt.Sprintf("%s: array of %d elements, want %d", path, len(b), len(a))
		}
		for i := range a {
			if d := valueDiff(ty.Elem, aliases, a[i], b[i], tagged, fmt.Sprintf("%s[%d]", path, i)); d != "" {
				return d
			}
		}
	case "map":
		var a, b map[string]json.RawMessage
		if json.Unmarshal(want, &a) != nil || json.Unmarshal(got, &b) != nil {
			return fmt.Sprintf("%s: got %s, want map %s", path, Preview(got), Preview(want))
		}
		if len(a) != len(b) {
			return fmt.Sprintf("%s: map with %d entries, want %d", path, len(b), len(a))
		}
		for k, av := range a {
			bv, ok := b[k]
			if !ok {
				return fmt.Sprintf("%s: map key %q missing", path, k)
			}
			if d := valueDiff(ty.Elem, aliases, av, bv, tagged, fmt.Sprintf("%s[%q]", path, k)); d != "" {
				return d
			}
		}
	case "struct":
		var a, b map[string]json.RawMessage
		if json.Unmarshal(want, &a) != nil {
			return fmt.Sprintf("HARNESS: model value %s is not an object", Preview(want))
		}
		if json.Unmarshal(got, &b) != nil {
			return fmt.Sprintf("%s: got %s, want object %s", path, Preview(got), Preview(want))
		}
		seen := map[string]bool{}
		for _, f := range ty.Fields {
			key := f.Name
			if !tagged {
				key = titleName(f.Name)
			}
			seen[key] = true
			gv, ok := b[key]
			if !ok {
				if f.T.K == "maybe" && isNull(a[f.Name]) {
					continue
				}
				return fmt.Sprintf("%s: member %q missing in %s", path, key, Preview(got))
			}
			if d := valueDiff(f.T, aliases, a[f.Name], gv, tagged, path+"."+f.Name); d != "" {
				return d
			}
		}
		for k := range b {
			if !seen[k] {
				return fmt.Sprintf("%s: unexpected member %q (the description's fields are %v)", path, k, fieldNames(ty))
			}
		}
	}
	return ""
}

func fieldNames(ty *Ty) []string {
	var out []string
	for _, f := range ty.Fields {
		out = append(out, f.Name)
	}
	return out
}

// paramsDiff compares a wire "parameters" object with the model values of a field list.
func paramsDiff(ty *Ty, aliases map[string]*Ty, vals []json.RawMessage, wire *json.RawMessage, what string) string {
	var parts []string
	for i, f := range ty.Fields {
		v := "null"
		if i < len(vals) {
			v = string(vals[i])
		}
		parts = append(parts, fmt.Sprintf("%q:%s", f.Name, v))
	}
	want := "{" + strings.Join(parts, ",") + "}"
	if wire == nil || string(*wire) == "null" {
		for i, f := range ty.Fields {
			if !(f.T.K == "maybe" && (i >= len(vals) || string(vals[i]) == "null")) {
				return fmt.Sprintf("%s: no parameters on the wire, want %s", what, Preview([]byte(want)))
			}
		}
		return ""
	}
	return valueDiff(ty, aliases, []byte(want), *wire, true, what)
}

// ---------------------------------------------------------------------------
// batches

// C08Case is a batch: descriptions plus a script per description.
type C08Case struct {
	Descs []C07Case `json:"descs"`
	Steps []BStep   `json:"steps"`
}

func methodsOf(i *Iface) []Member {
	var out []Member
	for _, m := range i.Members {
		if m.Kind == "method" {
			out = append(out, m)
		}
	}
	return out
}

func errorsOf(i *Iface) []Member {
	var out []Member
	for _, m := range i.Members {
		if m.Kind == "error" {
			out = append(out, m)
		}
	}
	return out
}

func emptyStruct() *Ty { return &Ty{K: "struct"} }

// genSteps draws the script for one description.
func genSteps(t *rapid.T, key string, tree *Iface, n int) []BStep {
	g := valueGen{t: t, aliases: aliasMap(tree)}
	ms := methodsOf(tree)
	es := errorsOf(tree)
	var steps []BStep
	for k := 0; k < n; k++ {
		m := rapid.SampledFrom(ms).Draw(t, "method")
		st := BStep{Pkg: key, Iface: tree.Name, Method: m.Name, Impl: "override", In: g.fields(m.In)}
		if st.In == nil {
			st.In = []json.RawMessage{}
		}
		switch r := rapid.IntRange(0, 13).Draw(t, "shape"); {
		case r <= 2: // plain call, typed reply
			st.API = "call"
			st.Reply = BReply{Kind: "reply", Out: g.fields(m.Out)}
		case r <= 5 && len(es) > 0: // declared error
			st.API = "call"
			e := rapid.SampledFrom(es).Draw(t, "err")
			et := e.T
			if et == nil {
				et = emptyStruct()
			}
			st.Reply = BReply{Kind: "error", Error: e.Name, Out: g.fields(et)}
		case r == 6: // not overridden
			st.API, st.Impl = "call", "embed"
			st.Reply = BReply{Kind: "none"}
		case r == 7: // more with k continues
			st.API, st.Flags = "send", varlink.More
			kc := rapid.IntRange(0, 3).Draw(t, "kcont")
			st.Reply = BReply{Kind: "reply", Out: g.fields(m.Out), Continues: kc}
			for j := 0; j < kc; j++ {
				st.Reply.ContOut = append(st.Reply.ContOut, g.fields(m.Out))
			}
			st.Recvs = kc + 1
		case r == 8: // oneway
			st.API, st.Flags = "send", varlink.Oneway
			st.Reply = BReply{Kind: "reply", Out: g.fields(m.Out)}
			st.Recvs = 0
			// ... also when the answer would be a declared error or the embedded MethodNotImplemented: still no bytes
			switch u := rapid.IntRange(0, 3).Draw(t, "owshape"); {
			case u == 0 && len(es) > 0:
				e := rapid.SampledFrom(es).Draw(t, "owerr")
				et := e.T
				if et == nil {
					et = emptyStruct()
				}
				st.Reply = BReply{Kind: "error", Error: e.Name, Out: g.fields(et)}
			case u == 1:
				st.Impl = "embed"
				st.Reply = BReply{Kind: "none"}
			}
		case r == 9: // upgrade: answered with a typed reply, with a declared error, or not overridden at all
			st.API = "upgrade"
			st.Reply = BReply{Kind: "reply", Out: g.fields(m.Out)}
			switch u := rapid.IntRange(0, 5).Draw(t, "upshape"); {
			case u <= 1 && len(es) > 0:
				e := rapid.SampledFrom(es).Draw(t, "uerr")
				et := e.T
				if et == nil {
					et = emptyStruct()
				}
				st.Reply = BReply{Kind: "error", Error: e.Name, Out: g.fields(et)}
			case u == 2:
				st.Impl = "embed"
				st.Reply = BReply{Kind: "none"}
			}
		case r == 10: // unknown method / undecodable parameters through a raw client
			st.API = "raw"
			if rapid.Bool().Draw(t, "unknown") || len(m.In.Fields) == 0 {
				st.Method = "NoSuchMethodZz"
				st.Raw = []byte(fmt.Sprintf(`{"method":%q,"parameters":{}}`, tree.Name+".NoSuchMethodZz"))
			} else {
				st.Raw = []byte(fmt.Sprintf(`{"method":%q,"parameters":%s}`, tree.Name+"."+m.Name, rapid.SampledFrom([]string{`"str"`, `17`, `[1,2]`, `true`}).Draw(t, "badparams")))
			}
		case r == 11 && len(es) > 0: // a foreign peer answers with a declared error in a shape the generated service never sends
			st.API = "call"
			e := rapid.SampledFrom(es).Draw(t, "ferr")
			q, _ := json.Marshal(tree.Name + "." + e.Name)
			st.Reply = BReply{Kind: "error", Error: e.Name}
			st.Canned = []byte(fmt.Sprintf(rapid.SampledFrom([]string{`{"error":%s}`, `{"error":%s,"parameters":null}`, `{"parameters":null,"error":%s}`, `{"error":%s,"parameters":{}}`,
				`{"error":%s,"parameters":{"unknown_member_zz":1}}`, `{"error":%s,"parameters":[]}`, `{"error":%s,"parameters":"text"}`, `{"error":%s,"continues":true}`}).Draw(t, "fshape"), q))
		case r == 12 && len(es) > 0: // a foreign peer passes on an error of ANOTHER interface whose member name is one this description declares
			st.API = "call"
			e := rapid.SampledFrom(es).Draw(t, "xerr")
			other := rapid.SampledFrom([]string{"org.example.other", tree.Name + "x", "x" + tree.Name, tree.Name + ".sub", "sub." + tree.Name, strings.ToUpper(tree.Name[:1]) + tree.Name[1:], "a"}).Draw(t, "xiface")
			if other == tree.Name {
				other = "org.example.other"
			}
			full := other + "." + e.Name
			q, _ := json.Marshal(full)
			params := "{}"
			if e.T != nil && rapid.IntRange(0, 3).Draw(t, "xparams") > 0 {
				params = objectJSON(fieldNames(e.T), g.fields(e.T))
			}
			st.Reply = BReply{Kind: "error", Error: e.Name}
			st.Canned = []byte(fmt.Sprintf(`{"error":%s,"parameters":%s}`, q, params))
			st.CannedWant = "generic:" + full
		case r == 13: // a foreign peer answers with a well-formed success frame (for a method without output: an explicit empty object, null, or no member at all)
			st.API = "call"
			outs := g.fields(m.Out)
			st.Reply = BReply{Kind: "reply", Out: outs}
			st.CannedWant = "reply"
			obj := objectJSON(fieldNames(m.Out), outs)
			shapes := []string{`{"parameters":%s}`, `{"parameters":%s,"continues":false}`, `{"continues":false,"parameters":%s}`}
			if len(m.Out.Fields) == 0 {
				st.Canned = []byte(rapid.SampledFrom([]string{`{"parameters":{}}`, `{}`, `{"parameters":null}`, `{"parameters":{},"continues":false}`, `{"parameters":{"unknown_member_zz":1}}`}).Draw(t, "voidshape"))
			} else {
				st.Canned = []byte(fmt.Sprintf(rapid.SampledFrom(shapes).Draw(t, "okshape"), obj))
			}
		case r == 3 && rapid.IntRange(0, 3).Draw(t, "closed") == 0: // the transport is gone before the stub runs
			st.API = rapid.SampledFrom([]string{"call", "call", "send", "upgrade"}).Draw(t, "closedapi")
			st.Reply = BReply{Kind: "reply", Out: g.fields(m.Out)}
			st.Closed = true
		default: // plain send + one receive
			st.API = "send"
			st.Reply = BReply{Kind: "reply", Out: g.fields(m.Out)}
			st.Recvs = 1
		}
		steps = append(steps, st)
	}
	return steps
}

func genC08(t *rapid.T, nDescs, nSteps int) C08Case {
	var c C08Case
	seen := map[string]bool{}
	for len(c.Descs) < nDescs {
		tree := GenIfaceC07(t, 5, c07Opts)
		key := lettersDigitsLower(tree.Name)
		if seen[key] {
			continue
		}
		seen[key] = true
		eol := "\n"
		if rapid.IntRange(0, 7).Draw(t, "crlf") == 0 {
			eol = "\r\n"
		}
		desc := RenderC07(tree, eol, rapid.IntRange(0, 2).Draw(t, "trailing"), rapid.IntRange(0, 3).Draw(t, "perline") == 0)
		desc = blankTail(t, desc, eol)
		c.Descs = append(c.Descs, C07Case{Desc: desc, Tree: tree, Origin: "batch"})
		c.Steps = append(c.Steps, genSteps(t, fmt.Sprintf("k%d", len(c.Descs)-1), tree, nSteps)...)
	}
	return c
}

// judgeStep compares one step's observations with the model; returns a violation text or "".
func judgeStep(st BStep, tree *Iface, o BStepObs) (string, int) {
	cmp := 0
	aliases := aliasMap(tree)
	var m *Member
	for i := range tree.Members {
		if tree.Members[i].Kind == "method" && tree.Members[i].Name == st.Method {
			m = &tree.Members[i]
		}
	}
	pre := fmt.Sprintf("%s.%s (%s, impl %s, flags %#x): ", tree.Name, st.Method, st.API, st.Impl, st.Flags)
	if st.Closed {
		// nothing can be sent on a closed connection: whatever the stub returns, it is not a successful reply
		if o.Problem != "" {
			return pre + "on a closed connection: " + o.Problem, cmp
		}
		cmp++
		if st.API == "call" {
			if len(o.Recvs) != 1 || o.Recvs[0].ErrStr == "" {
				return pre + fmt.Sprintf("the generated Call on a closed connection reported success (%d results, error %q): a call that never reached the wire is not a reply", len(o.Recvs), firstErr(o.Recvs)), cmp
			}
		} else if o.SendErr == "" {
			return pre + fmt.Sprintf("the generated %s on a closed connection reported success", st.API), cmp
		}
		return "", cmp
	}
	if len(st.Canned) > 0 {
		// a well-formed error frame from a foreign peer: the generated client must hand back an error of that name
		// (typed, or the generic one where the parameters do not fit) - and must not crash
		want := tree.Name + "." + st.Reply.Error
		if o.Problem != "" {
			return pre + fmt.Sprintf("the peer answered %s: %s", st.Canned, o.Problem), cmp
		}
		if len(o.Recvs) != 1 {
			return pre + fmt.Sprintf("the driver made %d receives, want 1", len(o.Recvs)), cmp
		}
		cmp++
		if st.CannedWant == "reply" {
			r := o.Recvs[0]
			if r.ErrStr != "" {
				return pre + fmt.Sprintf("the peer answered with the well-formed reply %s, the generated client returned the error %q (%s)", st.Canned, r.ErrStr, r.ErrType), cmp
			}
			if m != nil {
				if len(r.Outs) != len(m.Out.Fields) {
					return pre + fmt.Sprintf("the peer answered %s, the generated client returned %d values, the method has %d output fields", st.Canned, len(r.Outs), len(m.Out.Fields)), cmp
				}
				for k, f := range m.Out.Fields {
					if d := valueDiff(f.T, aliases, st.Reply.Out[k], r.Outs[k], false, "result "+f.Name); d != "" {
						return pre + fmt.Sprintf("the peer answered %s: %s", st.Canned, d), cmp
					}
				}
			}
			return "", cmp
		}
		if strings.HasPrefix(st.CannedWant, "generic:") {
			full := strings.TrimPrefix(st.CannedWant, "generic:")
			r := o.Recvs[0]
			if r.ErrStr == "" {
				return pre + fmt.Sprintf("the peer answered with the error frame %s, the generated client reported success", st.Canned), cmp
			}
			var ge struct {
				Name string `json:"error"`
			}
			json.Unmarshal(r.ErrJSON, &ge)
			if r.ErrType != "*varlink.Error" || !(r.ErrStr == full || strings.HasPrefix(r.ErrStr, full+"(") || ge.Name == full) {
				return pre + fmt.Sprintf("the peer answered %s - an error this description does not declare (it belongs to another interface) - and the generated client returned %q (%s), want the generic error named %s", st.Canned, r.ErrStr, r.ErrType, full), cmp
			}
			return "", cmp
		}
		if r := o.Recvs[0]; r.ErrStr != want && !strings.HasPrefix(r.ErrStr, want+"(") {
			return pre + fmt.Sprintf("the peer answered %s, the generated client returned error %q (%s), want the error %s", st.Canned, r.ErrStr, r.ErrType, want), cmp
		}
		return "", cmp
	}
	if o.Problem != "" {
		return pre + "driver problem: " + o.Problem, cmp
	}
	if o.Impl.Problem != "" {
		return pre + "driver problem: " + o.Impl.Problem, cmp
	}
	c2s, rest := SplitFrames(o.C2S)
	s2c, rest2 := SplitFrames(o.S2C)
	if st.API == "send" && st.Flags&varlink.Oneway != 0 {
		// the driver fences a oneway call with a GetInfo on the same connection: strip that exchange
		if len(c2s) != 2 || len(s2c) != 1 || !bytes.Contains(c2s[1], []byte("org.varlink.service.GetInfo")) {
			return pre + fmt.Sprintf("a oneway call followed by the sentinel GetInfo put %d frames on the wire and got %d back (want 2 and 1: no bytes for the oneway call): %s", len(c2s), len(s2c), describeFrames(o.S2C)), cmp
		}
		c2s, s2c = c2s[:1], nil
	}
	if len(rest) != 0 || len(c2s) != 1 {
		return pre + fmt.Sprintf("%d call frames on the wire (+%d stray bytes), want exactly one", len(c2s), len(rest)), cmp
	}
	if len(rest2) != 0 {
		return pre + "reply stream not NUL-terminated", cmp
	}
	var errName func(f []byte) (string, *json.RawMessage, bool)
	errName = func(f []byte) (string, *json.RawMessage, bool) {
		var r wireReply
		if json.Unmarshal(f, &r) != nil {
			return "", nil, false
		}
		return r.Error, r.Parameters, r.Continues
	}
	if st.API == "raw" {
		if len(s2c) != 1 {
			return pre + fmt.Sprintf("%d reply frames, want one standard error", len(s2c)), cmp
		}
		name, _, _ := errName(s2c[0])
		cmp++
		if st.Method == "NoSuchMethodZz" {
			if name != "org.varlink.service.MethodNotFound" {
				return pre + fmt.Sprintf("an unknown method was answered with %s, want MethodNotFound", Preview(s2c[0])), cmp
			}
		} else if name != "org.varlink.service.InvalidParameter" {
			return pre + fmt.Sprintf("undecodable parameters were answered with %s, want InvalidParameter", Preview(s2c[0])), cmp
		}
		if o.Impl.Called {
			return pre + "the implementation was invoked although the call cannot be decoded / does not exist", cmp
		}
		return "", cmp
	}
	if m == nil {
		return "HARNESS: method not in tree", cmp
	}
	// (1) the call frame
	var wc wireCall
	if json.Unmarshal(c2s[0], &wc) != nil {
		return pre + "call frame does not decode: " + Preview(c2s[0]), cmp
	}
	cmp++
	if wc.Method != tree.Name+"."+m.Name {
		return pre + fmt.Sprintf("call frame method %q, want %q", wc.Method, tree.Name+"."+m.Name), cmp
	}
	wantMore, wantOneway, wantUp := st.Flags&varlink.More != 0, st.Flags&varlink.Oneway != 0, st.API == "upgrade"
	if wc.More != wantMore || wc.Oneway != wantOneway || wc.Upgrade != wantUp {
		return pre + fmt.Sprintf("call frame flags more/oneway/upgrade = %v/%v/%v, requested %v/%v/%v", wc.More, wc.Oneway, wc.Upgrade, wantMore, wantOneway, wantUp), cmp
	}
	cmp++
	if d := paramsDiff(m.In, aliases, st.In, wc.Parameters, "call parameters"); d != "" {
		return pre + "wire: " + d, cmp
	}
	// (2) what the implementation received
	if st.Impl == "override" {
		if !o.Impl.Called || o.Impl.Method != m.Name {
			return pre + fmt.Sprintf("the implementation's %s was not invoked (called=%v, method %q)", m.Name, o.Impl.Called, o.Impl.Method), cmp
		}
		if o.Impl.More != wantMore || o.Impl.Oneway != wantOneway || o.Impl.Upgrade != wantUp {
			return pre + fmt.Sprintf("the implementation saw more/oneway/upgrade = %v/%v/%v, requested %v/%v/%v", o.Impl.More, o.Impl.Oneway, o.Impl.Upgrade, wantMore, wantOneway, wantUp), cmp
		}
		if len(o.Impl.Args) != len(m.In.Fields) {
			return pre + fmt.Sprintf("the implementation received %d arguments, the method has %d input fields", len(o.Impl.Args), len(m.In.Fields)), cmp
		}
		for i, f := range m.In.Fields {
			cmp++
			if d := valueDiff(f.T, aliases, st.In[i], o.Impl.Args[i], false, "argument "+f.Name); d != "" {
				return pre + "implementation: " + d, cmp
			}
		}
	} else if o.Impl.Called {
		return pre + "HARNESS: handler called for an embedding implementation", cmp
	}
	// expected reply frames
	type expReply struct {
		errName string
		ty      *Ty
		vals    []json.RawMessage
		cont    bool
	}
	var exp []expReply
	if st.Impl == "embed" {
		exp = append(exp, expReply{errName: "org.varlink.service.MethodNotImplemented"})
	} else {
		for k := 0; k < st.Reply.Continues; k++ {
			exp = append(exp, expReply{ty: m.Out, vals: st.Reply.ContOut[k], cont: true})
		}
		switch st.Reply.Kind {
		case "reply":
			exp = append(exp, expReply{ty: m.Out, vals: st.Reply.Out})
		case "error":
			var et *Ty
			for _, e := range errorsOf(tree) {
				if e.Name == st.Reply.Error {
					et = e.T
				}
			}
			if et == nil {
				et = emptyStruct()
			}
			exp = append(exp, expReply{errName: tree.Name + "." + st.Reply.Error, ty: et, vals: st.Reply.Out})
		}
	}
	if wantOneway {
		if len(s2c) != 0 {
			return pre + fmt.Sprintf("a oneway call produced %d reply frames", len(s2c)), cmp
		}
		return "", cmp
	}
	// (3) reply frames
	if len(s2c) != len(exp) {
		return pre + fmt.Sprintf("%d reply frames on the wire, want %d: %s", len(s2c), len(exp), describeFrames(o.S2C)), cmp
	}
	for i, e := range exp {
		name, params, cont := errName(s2c[i])
		cmp++
		if name != e.errName {
			return pre + fmt.Sprintf("reply frame %d has error %q, want %q: %s", i, name, e.errName, Preview(s2c[i])), cmp
		}
		if cont != e.cont {
			return pre + fmt.Sprintf("reply frame %d continues=%v, want %v", i, cont, e.cont), cmp
		}
		if e.ty != nil {
			if d := paramsDiff(e.ty, aliases, e.vals, params, fmt.Sprintf("reply %d parameters", i)); d != "" {
				return pre + "wire: " + d, cmp
			}
		}
	}
	// (4)-(6) what the generated client returned
	wantRecvs := st.Recvs
	if st.API == "call" || st.API == "upgrade" {
		wantRecvs = 1
	}
	if o.SendErr != "" {
		return pre + "the generated Send/Upgrade failed: " + o.SendErr, cmp
	}
	if len(o.Recvs) != wantRecvs {
		return pre + fmt.Sprintf("the driver made %d receives, want %d", len(o.Recvs), wantRecvs), cmp
	}
	for i := 0; i < wantRecvs && i < len(exp); i++ {
		r, e := o.Recvs[i], exp[i]
		cmp++
		if e.errName != "" {
			switch {
			case e.errName == "org.varlink.service.MethodNotImplemented":
				if r.ErrType != "*varlink.MethodNotImplemented" {
					return pre + fmt.Sprintf("a method the implementation does not override returned error %s (%s), want *varlink.MethodNotImplemented", r.ErrType, r.ErrStr), cmp
				}
			default:
				wantType := "*" + lettersOnlyPkg(o, tree) + "." + st.Reply.Error
				if !strings.HasSuffix(r.ErrType, "."+st.Reply.Error) || !strings.HasPrefix(r.ErrType, "*") {
					return pre + fmt.Sprintf("the client returned error %s (%s), want the generated error type %s", r.ErrType, r.ErrStr, wantType), cmp
				}
				if d := valueDiffFields(e.ty, aliases, e.vals, r.ErrJSON); d != "" {
					return pre + "client error value: " + d, cmp
				}
			}
			continue
		}
		if r.ErrType != "" {
			return pre + fmt.Sprintf("receive %d returned error %s (%s), want values", i, r.ErrType, r.ErrStr), cmp
		}
		if len(r.Outs) != len(m.Out.Fields) {
			return pre + fmt.Sprintf("receive %d returned %d values, the method has %d output fields", i, len(r.Outs), len(m.Out.Fields)), cmp
		}
		for k, f := range m.Out.Fields {
			cmp++
			if d := valueDiff(f.T, aliases, e.vals[k], r.Outs[k], false, "result "+f.Name); d != "" {
				return pre + fmt.Sprintf("client receive %d: %s", i, d), cmp
			}
		}
		if st.API == "send" && (r.Flags&varlink.Continues != 0) != e.cont {
			return pre + fmt.Sprintf("client receive %d: Continues flag %v, want %v", i, r.Flags&varlink.Continues != 0, e.cont), cmp
		}
		if st.API == "upgrade" && !r.HasConn {
			return pre + "Upgrade's receive returned no connection", cmp
		}
	}
	return "", cmp
}

func lettersOnlyPkg(o BStepObs, tree *Iface) string { return lettersDigitsLower(tree.Name) }

// valueDiffFields compares the JSON of a generated error value (tagged struct) with the model.
func valueDiffFields(ty *Ty, aliases map[string]*Ty, vals []json.RawMessage, got json.RawMessage) string {
	var parts []string
	for i, f := range ty.Fields {
		v := "null"
		if i < len(vals) {
			v = string(vals[i])
		}
		parts = append(parts, fmt.Sprintf("%q:%s", f.Name, v))
	}
	return valueDiff(ty, aliases, []byte("{"+strings.Join(parts, ",")+"}"), got, true, "error")
}

var batchSeq int

// execBatch generates, type-checks, builds and drives a batch.
func execBatch(c C08Case, st *Stats, judge bool) error {
	batchSeq++
	dir := filepath.Join(c07WorkDir(), fmt.Sprintf("batch%d-%d", os.Getpid(), batchSeq))
	defer os.RemoveAll(dir)
	var pkgs []*BatchPkg
	for i, d := range c.Descs {
		src, _, rejected, err := generateChecked(d.Desc, c07WorkDir())
		if err != nil {
			return fmt.Errorf("description %d: %v\n--- description ---\n%s", i, err, d.Desc)
		}
		if rejected {
			return fmt.Errorf("HARNESS: the parser rejects a generated description:\n%s", d.Desc)
		}
		key := fmt.Sprintf("k%d", i)
		pkg, shim, err := makeShim(key, src)
		if err != nil {
			return fmt.Errorf("description %d: %v", i, err)
		}
		pkgs = append(pkgs, &BatchPkg{Key: key, Desc: d.Desc, Tree: d.Tree, Src: src, Pkg: pkg, Shim: shim})
	}
	bin, err := buildBatch(dir, pkgs)
	if err != nil {
		return err
	}
	st.Count("programs", int64(len(pkgs)))
	obs, err := runBatch(bin, dir, c.Steps)
	if err != nil {
		return err
	}
	for i, p := range pkgs {
		o, ok := obs.Pkgs[p.Key]
		if !ok {
			return fmt.Errorf("HARNESS: no observation for package %s", p.Key)
		}
		if o.Name != p.Tree.Name {
			return fmt.Errorf("description %d: the generated code reports the interface name %q, the description says %q", i, o.Name, p.Tree.Name)
		}
		if strings.TrimRight(o.Description, "\r\n") != strings.TrimRight(p.Desc, "\r\n") {
			return fmt.Errorf("description %d: the description reported at run time differs from the input (up to trailing newlines):\n got  %q\n want %q", i, o.Description, p.Desc)
		}
	}
	if !judge {
		return nil
	}
	if len(obs.Steps) != len(c.Steps) {
		return fmt.Errorf("HARNESS: %d step observations for %d steps", len(obs.Steps), len(c.Steps))
	}
	trees := map[string]*Iface{}
	for _, p := range pkgs {
		trees[p.Key] = p.Tree
	}
	for i, s := range c.Steps {
		msg, n := judgeStep(s, trees[s.Pkg], obs.Steps[i])
		st.Count("comparisons", int64(n))
		st.Count("api:"+s.API, 1)
		if msg != "" {
			var idx int
			fmt.Sscanf(s.Pkg, "k%d", &idx)
			return fmt.Errorf("step %d: %s\n--- step ---\n%s\n--- description ---\n%s", i, msg, Preview(mustJSON(s)), c.Descs[idx].Desc)
		}
	}
	return nil
}

func mustJSON(v interface{}) []byte {
	b, _ := json.Marshal(v)
	return b
}

func c08NonTrivial(c C08Case) (int, []string) {
	n := 0
	labels := map[string]bool{}
	for _, s := range c.Steps {
		all := string(mustJSON(s.In)) + string(mustJSON(s.Reply))
		if strings.Contains(all, "null") || strings.Contains(all, "[") || strings.Contains(all, "{") || !isASCII(all) {
			n++
		}
		labels["shape:"+s.API+"/"+s.Impl+"/"+s.Reply.Kind] = true
	}
	var out []string
	for k := range labels {
		out = append(out, k)
	}
	sort.Strings(out)
	return n, out
}

func checkC08(c C08Case, st *Stats) error {
	err := execBatch(c, st, true)
	n, labels := c08NonTrivial(c)
	st.Count("steps", int64(len(c.Steps)))
	st.Count("nontrivial-steps", int64(n))
	st.Case(HashOf(c), n > 0, func() interface{} { return C08Case{Descs: c.Descs[:1], Steps: c.Steps[:min(3, len(c.Steps))]} }, labels...)
	return err
}

var propC08 = Register(Prop[C08Case]{ID: "C08", Name: "C08", Check: checkC08})

func TestC08Rapid(t *testing.T) {
	p := propC08
	nd, ns := envInt("VERIF_C08_DESCS", 12), envInt("VERIF_C08_STEPS", 12)
	p.Gen = func(t *rapid.T) C08Case { return genC08(t, nd, ns) }
	RunRapid(t, p, "C08Rapid")
}

// TestC08Fixed: a hand-written description exercising every constructor, driven through every
// call shape with fixed values (a deterministic floor under the random batches).
func TestC08Fixed(t *testing.T) {
	desc := "interface org.example.fixed\ntype T (f: int, g: ?T, h: []T, e: (one, two))\ntype E (alpha, beta)\n" +
		"method All(b: bool, i: int, fl: float, s: string, o: object, t: T, e: E, oi: ?int, ot: ?T, ai: []int, aoi: []?int, m: [string]T, an: (x: int, y: ?(z: string)), oan: ?(q: []int), type: string, func: ?bool) -> (r: T, list: [](k: string, v: ?object), e: E, none: ?string)\n" +
		// anonymous structs as map values, map values inside arrays and optionals, in every position
		"method Shapes(ms: [string](w: int, note: ?string), am: [][string](p: bool), om: ?[string][](q: ?int)) -> (ms: [string](w: int, note: ?string), t: [string]T, am: [][string](p: bool))\n" +
		"method Empty() -> ()\nerror Failed (why: string, t: ?T, codes: []int)\nerror Plain\nerror Shaped (ms: [string](w: int, note: ?string), om: ?[string][](q: ?int))\n"
	tree := &Iface{}
	st := NewStats("C08Fixed")
	completed := false
	defer func() { st.Flush(completed) }()
	c := C08Case{}
	err := Guard(func() error {
		p, perr := parseOwn(desc)
		if perr != nil {
			return perr
		}
		tree = p
		c.Descs = []C07Case{{Desc: desc, Tree: tree, Origin: "fixed"}}
		tv := `{"f":9007199254740993,"g":{"f":-1,"g":null,"h":[],"e":"two"},"h":[{"f":0,"g":null,"h":[],"e":"one"}],"e":"one"}`
		in := []json.RawMessage{json.RawMessage("true"), json.RawMessage("-9223372036854775808"), json.RawMessage("5e-324"), json.RawMessage(`"é😀\u0000\""`), json.RawMessage(`{"any":[1,2.50,{"x":null}],"n":12345678901234567890}`),
			json.RawMessage(tv), json.RawMessage(`"beta"`), json.RawMessage("null"), json.RawMessage(tv), json.RawMessage("[1,2,3]"), json.RawMessage("[null,5,null]"), json.RawMessage(`{"Key":` + tv + `,"key":` + tv + `}`),
			json.RawMessage(`{"x":7,"y":{"z":"zz"}}`), json.RawMessage(`{"q":[]}`), json.RawMessage(`"kw"`), json.RawMessage("false")}
		in2 := append([]json.RawMessage(nil), in...)
		in2[7], in2[8], in2[13], in2[15] = json.RawMessage("17"), json.RawMessage("null"), json.RawMessage("null"), json.RawMessage("null")
		out := []json.RawMessage{json.RawMessage(tv), json.RawMessage(`[{"k":"a","v":{"deep":[1]}},{"k":"b","v":null}]`), json.RawMessage(`"alpha"`), json.RawMessage("null")}
		out2 := []json.RawMessage{json.RawMessage(tv), json.RawMessage(`[]`), json.RawMessage(`"beta"`), json.RawMessage(`"present"`)}
		mk := func(api string, flags uint64, ins []json.RawMessage, r BReply, recvs int, impl string) BStep {
			return BStep{Pkg: "k0", Iface: tree.Name, Method: "All", API: api, Flags: flags, In: ins, Impl: impl, Reply: r, Recvs: recvs}
		}
		c.Steps = []BStep{
			mk("call", 0, in, BReply{Kind: "reply", Out: out}, 0, "override"),
			mk("call", 0, in2, BReply{Kind: "reply", Out: out2}, 0, "override"),
			mk("call", 0, in, BReply{Kind: "error", Error: "Failed", Out: []json.RawMessage{json.RawMessage(`"because"`), json.RawMessage(tv), json.RawMessage("[1,2]")}}, 0, "override"),
			mk("call", 0, in2, BReply{Kind: "error", Error: "Failed", Out: []json.RawMessage{json.RawMessage(`""`), json.RawMessage("null"), json.RawMessage("[]")}}, 0, "override"),
			mk("call", 0, in, BReply{Kind: "error", Error: "Plain"}, 0, "override"),
			mk("call", 0, in, BReply{Kind: "none"}, 0, "embed"),
			mk("send", varlink.More, in, BReply{Kind: "reply", Out: out, Continues: 2, ContOut: [][]json.RawMessage{out2, out}}, 3, "override"),
			mk("send", varlink.Oneway, in, BReply{Kind: "reply", Out: out}, 0, "override"),
			mk("send", varlink.Oneway, in, BReply{Kind: "none"}, 0, "embed"),
			mk("send", varlink.Oneway, in2, BReply{Kind: "error", Error: "Plain"}, 0, "override"),
			mk("upgrade", 0, in2, BReply{Kind: "reply", Out: out2}, 0, "override"),
			mk("upgrade", 0, in, BReply{Kind: "error", Error: "Failed", Out: []json.RawMessage{json.RawMessage(`"busy"`), json.RawMessage("null"), json.RawMessage("[7]")}}, 0, "override"),
			mk("upgrade", 0, in, BReply{Kind: "none"}, 0, "embed"),
			mk("send", 0, in2, BReply{Kind: "error", Error: "Plain"}, 1, "override"),
			{Pkg: "k0", Iface: tree.Name, Method: "All", API: "call", In: in, Impl: "override", Reply: BReply{Kind: "reply", Out: out}, Closed: true},
			{Pkg: "k0", Iface: tree.Name, Method: "All", API: "send", In: in, Impl: "override", Reply: BReply{Kind: "reply", Out: out}, Closed: true},
			{Pkg: "k0", Iface: tree.Name, Method: "All", API: "upgrade", In: in, Impl: "override", Reply: BReply{Kind: "reply", Out: out}, Closed: true},
			{Pkg: "k0", Iface: tree.Name, Method: "All", API: "call", In: in, Impl: "override", Reply: BReply{Kind: "error", Error: "Failed"}, Canned: []byte(`{"error":"org.example.fixed.Failed"}`)},
			{Pkg: "k0", Iface: tree.Name, Method: "All", API: "call", In: in, Impl: "override", Reply: BReply{Kind: "error", Error: "Plain"}, Canned: []byte(`{"error":"org.example.fixed.Plain","parameters":null}`)},
			{Pkg: "k0", Iface: tree.Name, Method: "All", API: "call", In: in, Impl: "override", Reply: BReply{Kind: "error", Error: "Failed"}, Canned: []byte(`{"error":"org.example.fixed.Failed","parameters":{"why":17}}`)},
			{Pkg: "k0", Iface: tree.Name, Method: "Shapes", API: "call", Impl: "override",
				In:    []json.RawMessage{json.RawMessage(`{"a":{"w":1,"note":"n"},"B":{"w":-2,"note":null}}`), json.RawMessage(`[{"k":{"p":true}},{}]`), json.RawMessage(`{"x":[{"q":1},{"q":null}],"y":[]}`)},
				Reply: BReply{Kind: "reply", Out: []json.RawMessage{json.RawMessage(`{"z":{"w":0,"note":""}}`), json.RawMessage(`{"t":` + tv + `}`), json.RawMessage(`[{"k":{"p":false}}]`)}}},
			{Pkg: "k0", Iface: tree.Name, Method: "Shapes", API: "call", Impl: "override",
				In:    []json.RawMessage{json.RawMessage(`{}`), json.RawMessage(`[]`), json.RawMessage(`null`)},
				Reply: BReply{Kind: "error", Error: "Shaped", Out: []json.RawMessage{json.RawMessage(`{"e":{"w":7,"note":null}}`), json.RawMessage(`{"o":[{"q":5}]}`)}}},
			{Pkg: "k0", Iface: tree.Name, Method: "Empty", API: "call", In: []json.RawMessage{}, Impl: "override", Reply: BReply{Kind: "reply"}},
			{Pkg: "k0", Iface: tree.Name, Method: "NoSuchMethodZz", API: "raw", Raw: []byte(`{"method":"org.example.fixed.NoSuchMethodZz"}`)},
			{Pkg: "k0", Iface: tree.Name, Method: "All", API: "raw", Raw: []byte(`{"method":"org.example.fixed.All","parameters":"nope"}`)},
		}
		return checkC08(c, st)
	})
	if err != nil {
		SaveFailing("C08", "C08", c, err.Error())
		t.Fatalf("C08 violated: %v", err)
	}
	completed = true
}

func parseOwn(desc string) (*Iface, error) {
	c := C07Case{Desc: desc}
	_ = c
	p, err := idlNew(desc)
	if err != nil {
		return nil, fmt.Errorf("HARNESS: fixed description does not parse: %v", err)
	}
	return p, nil
}

// TestC07Batch: generated packages are compiled by the real compiler, linked and run; name and
// description are compared at run time (no call script).
var propC07Batch = Register(Prop[C08Case]{ID: "C07", Name: "C07batch", Check: func(c C08Case, st *Stats) error {
	err := execBatch(c, st, false)
	crlf := false
	for _, d := range c.Descs {
		if strings.Contains(d.Desc, "\r") {
			crlf = true
		}
	}
	labels := []string{"batch"}
	if crlf {
		labels = append(labels, "layout:CRLF")
	}
	st.Case(HashOf(c), true, func() interface{} { return C08Case{Descs: c.Descs[:1]} }, labels...)
	return err
}})

func TestC07Batch(t *testing.T) {
	p := propC07Batch
	nd := envInt("VERIF_C07_BATCH", 40)
	p.Gen = func(t *rapid.T) C08Case {
		c := genC08(t, nd, 0)
		c.Steps = nil
		return c
	}
	RunRapid(t, p, "C07Batch")
}

func idlNew(desc string) (*Iface, error) {
	p, err := idl.New(strings.TrimRight(desc, "\n"))
	if err != nil {
		return nil, err
	}
	return FromParser(p)
}

func firstErr(r []BRecvObs) string {
	if len(r) == 0 {
		return ""
	}
	return r[0].ErrStr
}

// objectJSON renders a JSON object from parallel name / value lists.
func objectJSON(names []string, vals []json.RawMessage) string {
	var sb strings.Builder
	sb.WriteByte('{')
	for i, n := range names {
		if i > 0 {
			sb.WriteByte(',')
		}
		q, _ := json.Marshal(n)
		sb.Write(q)
		sb.WriteByte(':')
		sb.Write(vals[i])
	}
	sb.WriteByte('}')
	return sb.String()
}
