package props

// C06 IDL parser: nothing ill-formed accepted, nothing silently ignored.

import (
	"fmt"
	"os"
	"strings"
	"testing"

	"github.com/varlink/go/varlink/idl"
	"pgregory.net/rapid"
)

// TextCase is an arbitrary input for the two-sided C06 oracle.
type TextCase struct {
	B         []byte `json:"b"`
	Preview   string `json:"preview"`
	Origin    string `json:"origin"`
	OneTokOff bool   `json:"one_token_off"` // differs from a valid description by exactly one token
}

func mkTextCase(s string, origin string, one bool) TextCase {
	return TextCase{B: []byte(s), Preview: Preview([]byte(s)), Origin: origin, OneTokOff: one}
}

func acceptSideChecks(input string, tree *idl.IDL) error {
	got, err := FromParser(tree)
	if err != nil {
		return fmt.Errorf("accepted, but the tree is malformed: %v", err)
	}
	if tree.Description != input {
		return fmt.Errorf("accepted, but Description %q is not the input", Preview([]byte(tree.Description)))
	}
	names := map[string]bool{}
	methods := 0
	for _, m := range got.Members {
		if names[m.Name] {
			return fmt.Errorf("accepted with duplicate member name %q", m.Name)
		}
		names[m.Name] = true
		if m.Kind == "method" {
			methods++
		}
		for _, t := range []*Ty{m.T, m.In, m.Out} {
			if err := tyWellFormed(t); err != nil {
				return fmt.Errorf("accepted, but %s %s: %v", m.Kind, m.Name, err)
			}
		}
	}
	if methods == 0 {
		return fmt.Errorf("accepted without any method")
	}
	if !CommentHasOddLineEnd(input) {
		want := IDLNormalise(input)
		have := IDLNormalise(PrintCompact(got))
		if want != have {
			return fmt.Errorf("accepted, but re-printing the tree does not reproduce the input (up to whitespace and comments):\n input normalised: %q\n tree  normalised: %q", Preview([]byte(want)), Preview([]byte(have)))
		}
	}
	return nil
}

func tyWellFormed(t *Ty) error {
	if t == nil {
		return nil
	}
	switch t.K {
	case "maybe":
		if t.Elem.K == "maybe" {
			return fmt.Errorf("an optional directly wraps an optional")
		}
	case "struct":
		for _, f := range t.Fields {
			if f.T == nil {
				return fmt.Errorf("struct list contains the bare name %q (mixed field/enum list)", f.Name)
			}
		}
	case "enum":
		if len(t.Fields) == 0 {
			return fmt.Errorf("enum without names")
		}
		for _, f := range t.Fields {
			if f.T != nil {
				return fmt.Errorf("enum list contains the typed field %q (mixed field/enum list)", f.Name)
			}
		}
	}
	if t.Elem != nil {
		if err := tyWellFormed(t.Elem); err != nil {
			return err
		}
	}
	names := map[string]bool{}
	for _, f := range t.Fields {
		_ = names
		if err := tyWellFormed(f.T); err != nil {
			return err
		}
	}
	return nil
}

func checkC06(c TextCase, st *Stats) error {
	in := string(c.B)
	var tree *idl.IDL
	var perr error
	if p := Guard(func() error { tree, perr = idl.New(in); return nil }); p != nil {
		// totality is C09's subject; a crash here is not judged by C06
		st.Case(HashOf(c.B), false, nil, "parser-crashed(not judged here)")
		return nil
	}
	lib, overflow := IDLLiberal(in)
	accepted := perr == nil
	cell := fmt.Sprintf("liberal=%v/parser=%v", lib, accepted)
	nt := (c.OneTokOff && !lib) || (accepted && (strings.Contains(in, "#") || (tree != nil && len(tree.Members) >= 2)))
	st.Case(HashOf(c.B), nt, func() interface{} { return c }, "origin:"+c.Origin, cell)
	if overflow {
		st.Count("liberal-overflow(dont-care)", 1)
	}
	if accepted {
		if tree == nil {
			return fmt.Errorf("idl.New returned nil tree and nil error on %q", c.Preview)
		}
		if err := acceptSideChecks(in, tree); err != nil {
			return fmt.Errorf("%v\n--- input ---\n%s", err, c.Preview)
		}
		if !lib && !overflow {
			return fmt.Errorf("ill-formed under even the most liberal reading, yet accepted:\n--- input ---\n%s", c.Preview)
		}
		return nil
	}
	if tree != nil {
		return fmt.Errorf("rejected with error %v but a tree was returned as well", perr)
	}
	return nil
}

var propC06 = Register(Prop[TextCase]{ID: "C06", Name: "C06", Check: checkC06})

func genC06(t *rapid.T) TextCase {
	switch rapid.IntRange(0, 7).Draw(t, "origin") {
	case 7: // one letter of a valid description replaced by (or one position filled with) a non-ASCII rune that case
		// folding, width folding or digit classes could mistake for an ASCII letter or digit
		i := GenIface(t, 3)
		s := Render(i, RapidLayout{T: t, EOL: "\n"})
		r := rapid.SampledFrom([]rune{0x212A, 0x017F, 0x0130, 0x0131, 0xFF41, 0xFF21, 0xFF10, 0x0660, 0x00B5, 0x2126, 0x00DF, 0x1E9E, 0x00C9, 0x0301, 0x00AD, 0x200B, 0x2028, 0x00A0, 0x3000, 0x2010, 0x2212, 0xFF0E, 0xFF1A}).Draw(t, "rune")
		var letters []int
		for k := 0; k < len(s); k++ {
			if c := s[k]; c >= 'a' && c <= 'z' || c >= 'A' && c <= 'Z' || c >= '0' && c <= '9' || c == '.' || c == '-' || c == ':' || c == ' ' {
				letters = append(letters, k)
			}
		}
		if len(letters) == 0 {
			return mkTextCase(s, "valid", false)
		}
		// prefer the interface name (the first line) half of the time
		k := rapid.SampledFrom(letters).Draw(t, "rpos")
		if nl := strings.Index(s, "\n"); nl > 10 && rapid.Bool().Draw(t, "inname") {
			if at := strings.Index(s, "interface"); at >= 0 && at+11 < nl {
				k = at + 10 + rapid.IntRange(0, nl-at-10).Draw(t, "npos")
				if k >= len(s) {
					k = len(s) - 1
				}
			}
		}
		if rapid.Bool().Draw(t, "replace") {
			s = s[:k] + string(r) + s[k+1:]
		} else {
			s = s[:k] + string(r) + s[k:]
		}
		return mkTextCase(s, "rune-edit", false)
	case 6: // arbitrary bytes inserted into a valid description under a random layout
		i := GenIface(t, 3)
		s := Render(i, RapidLayout{T: t, EOL: "\n"})
		k := rapid.IntRange(1, 3).Draw(t, "nbytes")
		for j := 0; j < k; j++ {
			p := rapid.IntRange(0, len(s)).Draw(t, "bpos")
			v := byte(rapid.IntRange(0, 255).Draw(t, "bval"))
			if rapid.Bool().Draw(t, "hard") {
				v = rapid.SampledFrom([]byte{0, 0x0b, 0x0c, 0x85, 0xa0, 0x1c, 0x1f, 0x7f, 0xc2, 0xe2, 0xff, ';', '{', '"', '\'', '*', '!', '=', '/', '\\'}).Draw(t, "bhard")
			}
			s = s[:p] + string([]byte{v}) + s[p:]
		}
		return mkTextCase(s, "byte-insert", false)
	case 0, 1: // random multi-edit mutant of a random valid description
		i := GenIface(t, 4)
		return mkTextCase(GenMutant(t, Tokens(i), RapidLayout{T: t, EOL: "\n"}), "mutant", false)
	case 2: // valid description (accept side)
		i := GenIface(t, 5)
		return mkTextCase(Render(i, RapidLayout{T: t, EOL: "\n"}), "valid", false)
	case 3: // token sequence after a valid header
		n := rapid.IntRange(0, 10).Draw(t, "n")
		var sb strings.Builder
		sb.WriteString("interface a.b\n")
		if rapid.Bool().Draw(t, "method-first") {
			sb.WriteString("method F()->()\n")
		}
		for k := 0; k < n; k++ {
			sb.WriteString(rapid.SampledFrom(MutAlphabet).Draw(t, "tok"))
			sb.WriteString(rapid.SampledFrom([]string{"", " ", "\n"}).Draw(t, "sp"))
		}
		return mkTextCase(sb.String(), "token-seq", false)
	case 4: // valid description + trailing material
		i := GenIface(t, 3)
		s := Render(i, RapidLayout{T: t, EOL: "\n"})
		tail := rapid.SampledFrom([]string{"\n#\ngarbage here\n", "\ngarbage", " )", "\n#\n)", "\nerror E (", "\nerror E [string]", "\nerror E ?", "\nerror E (a",
			"\nerror E\n(a: int)", "\ntype T (x: int, y)", "\ntype T (x, y: int)", "\x00", "\n# c\n\x00", "\ntype", "\nmethod", "\n-> ()", ";", "\ninterface c.d"}).Draw(t, "tail")
		return mkTextCase(s+tail, "valid+tail", false)
	default: // single-token mutant of a random description
		i := GenIface(t, 3)
		toks := Tokens(i)
		var pick []Tok
		kind := ""
		want := rapid.IntRange(0, 400).Draw(t, "which")
		n := 0
		SingleTokenMutants(toks, func(k string, m []Tok) bool {
			if n == want {
				pick, kind = m, k
				return false
			}
			n++
			return true
		})
		if pick == nil {
			pick, kind = toks, "none"
		}
		return mkTextCase(RenderTokens(pick, RapidLayout{T: t, EOL: "\n"}), "single-"+kind, kind != "none")
	}
}

func TestC06Rapid(t *testing.T) {
	p := propC06
	p.Gen = genC06
	RunRapid(t, p, "C06Rapid")
}

// TestC06Mutants: every single-token mutant of every enumerated description, under the
// compact and the commented layout.
func TestC06Mutants(t *testing.T) {
	shard, nshards := Shard()
	stride := 11 // the full enumeration x all single-token mutants is about 10^8 parses; the thorough tier takes every 11th tree
	if !Thorough() {
		stride = 211
	}
	if os.Getenv("VERIF_C06_FULL") != "" {
		stride = 1
	}
	type item struct {
		s    string
		kind string
	}
	ch := make(chan item, 1024)
	go func() {
		EnumIfaces(3, func(idx int, i *Iface) bool {
			if idx%stride != 0 || (idx/stride)%nshards != shard {
				return true
			}
			toks := Tokens(i)
			for _, l := range []FixedLayout{LayoutCompact, LayoutCommented} {
				ch <- item{RenderTokens(toks, l), "none"}
				SingleTokenMutants(toks, func(k string, m []Tok) bool {
					ch <- item{RenderTokens(m, l), k}
					return true
				})
			}
			return true
		})
		close(ch)
	}()
	next := func() (TextCase, bool) {
		it, ok := <-ch
		if !ok {
			return TextCase{}, false
		}
		return mkTextCase(it.s, "enum-single-"+it.kind, it.kind != "none"), true
	}
	RunCases(t, propC06, "C06Mutants", stride == 1, next)
}

// TestC06Seqs: all token sequences up to a length bound over a 16-token alphabet after a
// fixed valid header (bounded-exhaustive).
func TestC06Seqs(t *testing.T) {
	alphabet := []string{"(", ")", ",", ":", "?", "[]", "[string]", "->", "type ", "method ", "error ", "int", "T", "a", "\n", "#"}
	maxLen := 4
	if Thorough() {
		maxLen = 5
	}
	shard, nshards := Shard()
	headers := []string{"interface a.b\n", "interface a.b\nmethod F()->()\n"}
	idx := make([]int, 0, maxLen)
	hi := 0
	started := false
	count := 0
	advance := func() bool {
		// next sequence in length-then-lexicographic order
		if !started {
			started = true
			return true // the empty sequence
		}
		for k := len(idx) - 1; k >= 0; k-- {
			if idx[k]+1 < len(alphabet) {
				idx[k]++
				for j := k + 1; j < len(idx); j++ {
					idx[j] = 0
				}
				return true
			}
		}
		if len(idx) < maxLen {
			idx = append(idx, 0)
			for j := range idx {
				idx[j] = 0
			}
			return true
		}
		return false
	}
	next := func() (TextCase, bool) {
		for {
			if hi == 0 {
				for {
					if !advance() {
						return TextCase{}, false
					}
					count++
					if count%nshards == shard {
						break
					}
				}
			}
			var sb strings.Builder
			sb.WriteString(headers[hi])
			for _, k := range idx {
				sb.WriteString(alphabet[k])
			}
			hi = (hi + 1) % len(headers)
			return mkTextCase(sb.String(), fmt.Sprintf("seq-len%d", len(idx)), false), true
		}
	}
	RunCases(t, propC06, "C06Seqs", true, next)
}

// TestC06Bytes: for a few fixed descriptions, every byte value 0..255 inserted at, and
// substituted for, every byte position (bounded-exhaustive at the byte level: stray
// control bytes, Latin-1 "spaces", NUL, non-UTF-8).
func TestC06Bytes(t *testing.T) {
	bases := []string{
		"interface a.b\nmethod F(a: int) -> (b: ?[]string)\n",
		"# doc\ninterface a.b\n\ntype T (x: [string]int, y: (p, q))\n# d\nmethod F() -> ()\nerror E (why: T)\n",
		"interface a.b\r\nmethod F()->()\r\nerror E\r\n",
	}
	shard, nshards := Shard()
	bi, pos, val, mode, n := 0, 0, 0, 0, 0
	next := func() (TextCase, bool) {
		for bi < len(bases) {
			b := bases[bi]
			if pos > len(b) {
				bi, pos = bi+1, 0
				continue
			}
			cur := fmt.Sprintf("%d/%d/%d/%d", bi, pos, val, mode)
			_ = cur
			var out string
			ok := true
			if mode == 0 {
				out = b[:pos] + string([]byte{byte(val)}) + b[pos:]
			} else if pos < len(b) {
				out = b[:pos] + string([]byte{byte(val)}) + b[pos+1:]
			} else {
				ok = false
			}
			// advance the odometer
			mode++
			if mode == 2 {
				mode = 0
				val++
				if val == 256 {
					val = 0
					pos++
				}
			}
			if !ok {
				continue
			}
			n++
			if n%nshards != shard {
				continue
			}
			return mkTextCase(out, "byte-edit", false), true
		}
		return TextCase{}, false
	}
	RunCases(t, propC06, "C06Bytes", true, next)
}

func FuzzC06(f *testing.F) {
	for _, s := range fuzzSeedsIDL() {
		f.Add([]byte(s))
	}
	st := NewStats("FuzzC06")
	f.Fuzz(func(t *testing.T, b []byte) {
		if len(b) > 65536 {
			return
		}
		c := mkTextCase(string(b), "fuzz", false)
		if err := Guard(func() error { return checkC06(c, st) }); err != nil {
			SaveFailing("C06", "C06", c, err.Error())
			t.Fatalf("C06 violated: %v", err)
		}
	})
}

// TestC06LongNames: interface names around the 255-byte limit (and far beyond), glued to what follows in every way:
// no separator at all (the name token then runs on into the keyword and is one over-long, malformed name under
// every reading), a blank, a newline, a comment. Label structures: one long label, many short labels, a label
// boundary exactly at the limit. (Prompted by the seeded change C06-n: the name matched inside a 255-byte window,
// the rest of the token re-read as a member keyword.)
func TestC06LongNames(t *testing.T) {
	mk := func(n int, shape int) string {
		switch shape {
		case 0: // a.<one long label>
			return "a." + strings.Repeat("b", n-2)
		case 1: // many two-letter labels
			s := "a"
			for len(s)+3 <= n {
				s += ".bc"
			}
			return s + strings.Repeat("d", n-len(s))
		default: // the last label begins exactly where the limit lies
			if n <= 258 {
				return "a." + strings.Repeat("b", n-2)
			}
			return "a." + strings.Repeat("b", 252) + "." + strings.Repeat("c", n-255)
		}
	}
	var texts []string
	bodies := []string{"method F() -> ()\n", "type T (a: int)\nmethod F() -> ()\n", "error E\nmethod F() -> ()\n", "error E (a: int) method F() -> ()"}
	glues := []string{"", " ", "\n", "\t", "#c\n", "\r\n", "."}
	for _, n := range []int{200, 249, 250, 251, 252, 253, 254, 255, 256, 257, 258, 259, 260, 261, 262, 300, 510, 511, 512, 4096, 70000} {
		for shape := 0; shape < 3; shape++ {
			name := mk(n, shape)
			for _, g := range glues {
				for _, b := range bodies {
					texts = append(texts, "interface "+name+g+b)
				}
			}
			// the keyword's first letters are the last letters of a name that fits
			if n > 10 {
				for _, kw := range []string{"method", "type", "error"} {
					for cut := 1; cut < len(kw); cut++ {
						texts = append(texts, "interface "+name[:n-cut]+kw[:cut]+kw[cut:]+" F() -> ()\n")
						texts = append(texts, "interface "+name[:n-cut]+kw[:cut]+"\n"+kw+" F() -> ()\n")
					}
				}
			}
		}
	}
	shard, nshards := Shard()
	i := 0
	next := func() (TextCase, bool) {
		for i < len(texts) {
			k := i
			i++
			if k%nshards == shard {
				return mkTextCase(texts[k], "long-name", false), true
			}
		}
		return TextCase{}, false
	}
	RunCases(t, propC06, "C06LongNames", true, next)
}
