package props

// The test binary doubles as helper process: with VERIF_HELPER set it runs the requested
// helper (bridge relay, socket-activation child) instead of the tests.

import (
	"io"
	"net"
	"os"
	"testing"
)

func TestMain(m *testing.M) {
	switch os.Getenv("VERIF_HELPER") {
	case "relay":
		os.Exit(helperRelay(os.Getenv("VERIF_RELAY_ADDR")))
	case "activation":
		os.Exit(helperActivation())
	case "race":
		os.Exit(helperRace())
	}
	os.Exit(m.Run())
}

// helperRelay copies stdin -> unix socket and unix socket -> stdout (what a varlink bridge does).
func helperRelay(addr string) int {
	c, err := net.Dial("unix", addr)
	if err != nil {
		return 3
	}
	uc := c.(*net.UnixConn)
	done := make(chan struct{})
	go func() {
		io.Copy(uc, os.Stdin)
		uc.CloseWrite()
	}()
	go func() {
		io.Copy(os.Stdout, uc)
		os.Stdout.Close()
		close(done)
	}()
	<-done
	return 0
}
