package props

// C14 Shutdown always ends serving; connections drain; service is reusable.
// C15 Idle timeout fires only when idle, and then always.

import (
	"bytes"
	"context"
	"fmt"
	"net"
	"os"
	"path/filepath"
	"sync/atomic"
	"testing"
	"time"

	"github.com/varlink/go/varlink"
	"pgregory.net/rapid"
)

var lifeOps14 = []string{"connect", "connect", "connect", "call", "call", "call-partial", "call-partial", "close", "abort", "failcall", "shutdown", "shutdown", "shutdown-race", "shutdown-early", "cancel", "bind-again", "serve", "serve", "late-connect", "expiry", "accept-fault"}
var lifeOps15 = []string{"call-partial", "connect-expiry", "connect-expiry", "connect", "connect", "call", "close", "close", "abort", "failcall", "expiry", "expiry", "expiry", "shutdown", "serve", "late-connect", "cancel", "accept-fault"}

func genLife(t *rapid.T, ops []string, timeout bool) LifeCase {
	c := LifeCase{Timeout: timeout}
	n := rapid.IntRange(1, 25).Draw(t, "nops")
	for i := 0; i < n; i++ {
		c.Ops = append(c.Ops, LOp{Op: rapid.SampledFrom(ops).Draw(t, "op"), Conn: rapid.IntRange(0, 5).Draw(t, "conn")})
	}
	return c
}

func checkC14(c LifeCase, st *Stats) error {
	facts, err := ExecLife(c, protoBound)
	nt := facts["shutdown-with-open-conns"] > 0 || facts["re-serve"] >= 1 || facts["shutdown-race"] > 0 || facts["shutdown-early"] > 0
	var labels []string
	for _, k := range []string{"shutdown-with-open-conns", "re-serve", "shutdown-race", "shutdown-early", "cancel", "abort", "failcall", "bind-during-serving", "late-connect", "call-while-draining", "expiry-idle", "call-partial"} {
		if facts[k] > 0 {
			labels = append(labels, "has:"+k)
		}
	}
	st.Case(HashOf(c), nt, func() interface{} { return c }, labels...)
	return err
}

var propC14 = Register(Prop[LifeCase]{ID: "C14", Name: "C14", Pending: true, Check: checkC14})

func TestC14Rapid(t *testing.T) {
	p := propC14
	p.Gen = func(t *rapid.T) LifeCase { return genLife(t, lifeOps14, rapid.IntRange(0, 3).Draw(t, "timeout") == 0) }
	RunRapid(t, p, "C14Rapid")
}

// TestC14Enum: {3 Shutdown placements} x {0,1,2 open connections} x {5 ways the connections end} x
// {timeout 0 / non-zero}, each followed by a second serve cycle on the same object.
func TestC14Enum(t *testing.T) {
	var cases []LifeCase
	for _, place := range []string{"shutdown", "shutdown-race", "shutdown-early"} {
		for nopen := 0; nopen <= 2; nopen++ {
			for _, end := range []string{"close", "abort", "failcall", "cancel", "call+close"} {
				for _, to := range []bool{false, true} {
					var ops []LOp
					if place == "shutdown-early" {
						// first cycle: an ordinary one that is shut down, then the early placement on the re-bound object
						ops = append(ops, LOp{Op: "shutdown"}, LOp{Op: "shutdown-early"}, LOp{Op: "serve"})
					}
					for i := 0; i < nopen; i++ {
						ops = append(ops, LOp{Op: "connect"})
					}
					if place != "shutdown-early" {
						ops = append(ops, LOp{Op: place})
					} else {
						ops = append(ops, LOp{Op: "shutdown"})
					}
					for i := 0; i < nopen+1; i++ {
						switch end {
						case "call+close":
							ops = append(ops, LOp{Op: "call"}, LOp{Op: "close"})
						default:
							ops = append(ops, LOp{Op: end})
						}
					}
					ops = append(ops, LOp{Op: "late-connect"}, LOp{Op: "serve"}, LOp{Op: "call"}, LOp{Op: "bind-again"})
					cases = append(cases, LifeCase{Timeout: to, Ops: ops})
				}
			}
		}
	}
	shard, nshards := Shard()
	i := 0
	next := func() (LifeCase, bool) {
		for i < len(cases) {
			k := i
			i++
			if k%nshards == shard {
				return cases[k], true
			}
		}
		return LifeCase{}, false
	}
	RunCases(t, propC14, "C14Enum", true, next)
}

// ---------------------------------------------------------------------------
// real sockets

// SockCase: a lifecycle on a kernel listener.
type SockCase struct {
	Kind     string `json:"kind"`       // unixfs | unixabs | tcp
	Via      string `json:"via"`        // listen | bind+dolisten
	Open     int    `json:"open"`       // connections open at the moment of Shutdown / during the idle period
	TimeoutM int    `json:"timeout_ms"` // 0: shutdown scenario (C14); else idle-timeout scenario (C15)
	Cycles   int    `json:"cycles"`
	// EarlyStop: before every serving cycle the address is bound and shut down again without ever being served
	// (Shutdown before the accept loop exists); binding and serving the same address right afterwards must work
	EarlyStop bool `json:"early_stop,omitempty"`
}

var sockCounter int64

func sockAddress(kind, dir string) string {
	id := fmt.Sprintf("verif-sock-%d-%d", os.Getpid(), atomic.AddInt64(&sockCounter, 1))
	switch kind {
	case "unixfs":
		return "unix:" + filepath.Join(dir, id)
	case "tcp":
		// a loopback address of this process's own (all of 127/8 is local): another process probing for
		// free ports on 127.0.0.1 at the same time cannot take the port between two serve cycles
		n := atomic.AddInt64(&sockCounter, 1)
		ip := fmt.Sprintf("127.%d.%d.%d", 1+os.Getpid()>>8&127, os.Getpid()&255, 1+n%250)
		l, err := net.Listen("tcp", ip+":0")
		if err != nil {
			return fmt.Sprintf("tcp:127.0.0.1:%d", freePort())
		}
		port := l.Addr().(*net.TCPAddr).Port
		l.Close()
		return fmt.Sprintf("tcp:%s:%d", ip, port)
	}
	return "unix:@" + id
}

func dialGetInfo(addr string, bound time.Duration) (*varlink.Connection, error) {
	ctx, cancel := context.WithTimeout(context.Background(), bound)
	defer cancel()
	var last error
	for dl := time.Now().Add(bound); time.Now().Before(dl); {
		c, err := varlink.NewConnection(ctx, addr)
		if err == nil {
			if gerr := c.GetInfo(ctx, nil, nil, nil, nil, nil); gerr != nil {
				c.Close()
				return nil, gerr
			}
			return c, nil
		}
		last = err
		time.Sleep(time.Millisecond)
	}
	return nil, last
}

// lateDialAnswered: after serving ended, a client must not get an answer from THIS service (dial fails, or EOF /
// silence). An answer carrying another vendor string comes from a different process that happens to listen there
// (another test run binding the wildcard address on the same port): that says nothing about this service.
func lateDialAnswered(addr, vendor string) bool {
	answered, foreign := lateDial(addr, vendor)
	return answered && !foreign
}

func lateDial(addr, vendor string) (answered, foreign bool) {
	proto, target := "unix", addr[len("unix:"):]
	if addr[:4] == "tcp:" {
		proto, target = "tcp", addr[4:]
	}
	c, err := net.DialTimeout(proto, target, 300*time.Millisecond)
	if err != nil {
		return false, false
	}
	defer c.Close()
	c.SetDeadline(time.Now().Add(150 * time.Millisecond))
	c.Write(append(append([]byte(nil), sentinelFrame...), 0))
	var got []byte
	buf := make([]byte, 4096)
	for !bytes.Contains(got, []byte{0}) {
		n, rerr := c.Read(buf)
		got = append(got, buf[:n]...)
		if rerr != nil {
			break
		}
	}
	if len(got) == 0 {
		return false, false
	}
	return true, !bytes.Contains(got, []byte(vendor))
}

func execSock(c SockCase, bound time.Duration) (err error) {
	var stuck error
	defer func() {
		if stuck != nil {
			err = fmt.Errorf("%v: the service's lock is still held", stuck)
		}
	}()
	bound *= WatchdogScale()
	dir, err := os.MkdirTemp("", "sock")
	if err != nil {
		return fmt.Errorf("HARNESS: %v", err)
	}
	defer os.RemoveAll(dir)
	vendor := fmt.Sprintf("sock-vendor-%d-%d", os.Getpid(), atomic.AddInt64(&sockCounter, 1))
	svc, err := varlink.NewService(vendor, "p", "1", "u")
	if err != nil {
		return fmt.Errorf("HARNESS: %v", err)
	}
	addr := sockAddress(c.Kind, dir)
	shutdown := func() {
		if serr := GuardBounded("Shutdown", bound, func() error { svc.Shutdown(); return nil }); serr != nil && stuck == nil {
			stuck = serr
		}
	}
	timeout := time.Duration(c.TimeoutM) * time.Millisecond
	for cycle := 0; cycle < c.Cycles; cycle++ {
		pre := fmt.Sprintf("cycle %d on %s: ", cycle, addr)
		ctx, cancel := context.WithCancel(context.Background())
		if c.EarlyStop {
			if berr := GuardBounded("Bind", bound, func() error { return svc.Bind(ctx, addr) }); berr != nil {
				cancel()
				if _, foreign := lateDial(addr, vendor); foreign && c.Kind == "tcp" {
					return nil
				}
				return fmt.Errorf("%sBind (to be shut down before serving) failed: %v", pre, berr)
			}
			shutdown()
			pre += "(after Bind + Shutdown without serving) "
		}
		done := make(chan error, 1)
		if c.Via == "listen" {
			go func() { done <- svc.Listen(ctx, addr, timeout) }()
		} else {
			if berr := svc.Bind(ctx, addr); berr != nil {
				cancel()
				if _, foreign := lateDial(addr, vendor); foreign && c.Kind == "tcp" {
					return nil // another process listens on this port now (wildcard bind): nothing to learn from this case
				}
				return fmt.Errorf("%sBind failed: %v (the same address must be usable again at once)", pre, berr)
			}
			go func() { done <- svc.DoListen(ctx, timeout) }()
		}
		var conns []*varlink.Connection
		closeAll := func() {
			for _, x := range conns {
				x.Close()
			}
			conns = nil
		}
		fail := func(format string, a ...interface{}) error {
			closeAll()
			shutdown()
			select {
			case <-done:
			case <-time.After(bound):
			}
			cancel()
			return fmt.Errorf(pre+format, a...)
		}
		n := c.Open
		if n == 0 && timeout == 0 {
			// make sure it is up before shutting down
			x, derr := dialGetInfo(addr, bound)
			if derr != nil {
				return fail("cannot reach the service: %v", derr)
			}
			x.Close()
		}
		for i := 0; i < n; i++ {
			x, derr := dialGetInfo(addr, bound)
			if derr != nil {
				select {
				case e := <-done:
					cancel()
					closeAll()
					if _, foreign := lateDial(addr, vendor); foreign && c.Kind == "tcp" {
						return nil // (as above)
					}
					return fmt.Errorf("%sthe serving call returned %v before a client could connect", pre, e)
				default:
				}
				return fail("cannot reach the service: %v", derr)
			}
			conns = append(conns, x)
		}
		if timeout != 0 {
			if n > 0 {
				// hold the connections open for 4 idle periods: the service must not stop
				select {
				case e := <-done:
					cancel()
					closeAll()
					return fmt.Errorf("%sthe service stopped (%v) while %d connection(s) were open", pre, e, n)
				case <-time.After(4 * timeout):
				}
				cctx, ccancel := context.WithTimeout(context.Background(), bound)
				gerr := conns[0].GetInfo(cctx, nil, nil, nil, nil, nil)
				ccancel()
				if gerr != nil {
					return fail("an open connection is no longer served after idle periods passed: %v", gerr)
				}
				// ... and it must still be accepting: a service that stopped listening at the first expiry and
				// only waits for its connections to end has been stopped by the expiry
				y, derr := dialGetInfo(addr, bound)
				if derr != nil {
					return fail("after idle periods passed with %d connection(s) open a new client is no longer served: %v", n, derr)
				}
				y.Close()
				closeAll()
			}
			select {
			case e := <-done:
				if _, ok := e.(varlink.ServiceTimeoutError); !ok {
					cancel()
					return fmt.Errorf("%sidle service returned %v (%T), want ServiceTimeoutError", pre, e, e)
				}
			case <-time.After(timeout + 5*time.Second):
				return fail("idle for more than the timeout (+5 s) with no connection open, but the service did not stop")
			}
		} else {
			shutdown()
			if n > 0 {
				time.Sleep(2 * time.Millisecond)
				select {
				case e := <-done:
					cancel()
					closeAll()
					return fmt.Errorf("%sthe serving call returned (%v) after Shutdown while %d accepted connection(s) were still open", pre, e, n)
				default:
				}
				cctx, ccancel := context.WithTimeout(context.Background(), bound)
				gerr := conns[0].GetInfo(cctx, nil, nil, nil, nil, nil)
				ccancel()
				if gerr != nil {
					return fail("a connection accepted before Shutdown is no longer served while draining: %v", gerr)
				}
				if lateDialAnswered(addr, vendor) {
					return fail("a client connecting after Shutdown returned was answered")
				}
				closeAll()
			}
			select {
			case <-done:
			case <-time.After(bound):
				cancel()
				return fmt.Errorf("%sthe serving call did not return within %v after Shutdown and the end of all connections", pre, bound)
			}
		}
		cancel()
		if n := activeConns(svc); n != 0 {
			return fmt.Errorf("%sactive-connection count %d after the serving call returned", pre, n)
		}
		if lateDialAnswered(addr, vendor) {
			return fmt.Errorf("%sa client connecting after serving ended was answered", pre)
		}
		// the endpoint must be released: a dial must fail rather than connect to a listener nobody serves
		proto, target := "unix", addr[len("unix:"):]
		if addr[:4] == "tcp:" {
			proto, target = "tcp", addr[4:]
		}
		if x, derr := net.DialTimeout(proto, target, 300*time.Millisecond); derr == nil {
			x.Close()
			// (unless what listens there now is somebody else's service: another process that bound the wildcard address on this port)
			if _, foreign := lateDial(addr, vendor); !foreign {
				return fmt.Errorf("%safter serving ended a client can still connect to %s: the listening endpoint was not released", pre, addr)
			}
		}
		if c.Kind == "unixfs" {
			if _, serr := os.Lstat(target); serr == nil {
				return fmt.Errorf("%safter serving ended the socket file %s still exists", pre, target)
			}
		}
	}
	if left := LibGoroutines(bound / 2); left != "" {
		return fmt.Errorf("library goroutines still alive after serving ended:\n%s", left)
	}
	return nil
}

func checkSock(id string) func(SockCase, *Stats) error {
	return func(c SockCase, st *Stats) error {
		err := execSock(c, protoBound)
		st.Case(HashOf(c), c.Open > 0 || c.Cycles > 1, func() interface{} { return c }, "real:"+c.Kind, "via:"+c.Via, fmt.Sprintf("open:%d", c.Open))
		return err
	}
}

var propC14Sock = Register(Prop[SockCase]{ID: "C14", Name: "C14sock", Pending: true, Check: checkSock("C14")})
var propC15Sock = Register(Prop[SockCase]{ID: "C15", Name: "C15sock", Pending: true, Check: checkSock("C15")})

func sockCases(timeoutMS int) []SockCase {
	var cases []SockCase
	for _, k := range []string{"unixfs", "unixabs", "tcp"} {
		for _, via := range []string{"listen", "bind+dolisten"} {
			for open := 0; open <= 2; open++ {
				cases = append(cases, SockCase{Kind: k, Via: via, Open: open, TimeoutM: timeoutMS, Cycles: 2})
				if open < 2 {
					cases = append(cases, SockCase{Kind: k, Via: via, Open: open, TimeoutM: timeoutMS, Cycles: 2, EarlyStop: true})
				}
			}
		}
	}
	return cases
}

func runSock(t *testing.T, p Prop[SockCase], name string, cases []SockCase) {
	shard, nshards := Shard()
	i := 0
	next := func() (SockCase, bool) {
		for i < len(cases) {
			k := i
			i++
			if k%nshards == shard {
				return cases[k], true
			}
		}
		return SockCase{}, false
	}
	RunCases(t, p, name, true, next)
}

func TestC14Sock(t *testing.T) { runSock(t, propC14Sock, "C14Sock", sockCases(0)) }

// ---------------------------------------------------------------------------
// C15

func checkC15(c LifeCase, st *Stats) error {
	facts, err := ExecLife(c, protoBound)
	nt := facts["expiry-busy"] > 0 && facts["expiry-idle"] > 0
	var labels []string
	for _, k := range []string{"expiry-busy", "expiry-idle", "connect-expiry", "re-serve", "abort", "failcall", "cancel"} {
		if facts[k] > 0 {
			labels = append(labels, "has:"+k)
		}
	}
	if !c.Timeout {
		labels = append(labels, "control:no-timeout")
	}
	st.Case(HashOf(c), nt, func() interface{} { return c }, labels...)
	return err
}

var propC15 = Register(Prop[LifeCase]{ID: "C15", Name: "C15", Pending: true, Check: checkC15})

func TestC15Rapid(t *testing.T) {
	p := propC15
	p.Gen = func(t *rapid.T) LifeCase { return genLife(t, lifeOps15, rapid.IntRange(0, 9).Draw(t, "timeout") != 0) }
	RunRapid(t, p, "C15Rapid")
}

// TestC15Enum: all event sequences of length <= 5 (6 thorough) over {connect, close, abort, failcall, expiry}
// with a timeout (bounded-exhaustive), each followed by a final expiry and a re-serve.
func TestC15Enum(t *testing.T) {
	alphabet := []string{"connect", "close", "abort", "failcall", "expiry", "connect-expiry"}
	maxLen := 4
	if Thorough() {
		maxLen = 6
	}
	var seqs [][]LOp
	var rec func(cur []LOp)
	rec = func(cur []LOp) {
		seqs = append(seqs, append([]LOp(nil), cur...))
		if len(cur) == maxLen {
			return
		}
		for _, a := range alphabet {
			rec(append(cur, LOp{Op: a}))
		}
	}
	rec(nil)
	shard, nshards := Shard()
	i := 0
	next := func() (LifeCase, bool) {
		for i < len(seqs) {
			k := i
			i++
			if k%nshards == shard {
				ops := append(append([]LOp(nil), seqs[k]...), LOp{Op: "close"}, LOp{Op: "close"}, LOp{Op: "close"}, LOp{Op: "close"}, LOp{Op: "close"}, LOp{Op: "close"}, LOp{Op: "expiry"}, LOp{Op: "serve"}, LOp{Op: "expiry"})
				return LifeCase{Timeout: true, Ops: ops}, true
			}
		}
		return LifeCase{}, false
	}
	RunCases(t, propC15, "C15Enum", true, next)
}

func TestC15Sock(t *testing.T) { runSock(t, propC15Sock, "C15Sock", sockCases(150)) }
