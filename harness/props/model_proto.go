package props

// Reference model of the service side of the protocol, written from the property
// statements C01/C04/C10/C12/C13: given the registered interfaces and the frames a
// client sends on one connection, which reply frames must appear, which handler
// invocations must be logged, and whether the connection survives.

import (
	"encoding/base64"
	"encoding/json"
	"fmt"
	"strings"
	"unicode/utf8"
)

// Blob is a byte string that serialises readably when it is text.
type Blob []byte

// MarshalJSON implements json.Marshaler.
func (b Blob) MarshalJSON() ([]byte, error) {
	if utf8.Valid(b) {
		return json.Marshal(map[string]string{"s": string(b)})
	}
	return json.Marshal(map[string]string{"b64": base64.StdEncoding.EncodeToString(b)})
}

// UnmarshalJSON implements json.Unmarshaler.
func (b *Blob) UnmarshalJSON(d []byte) error {
	var m map[string]string
	if err := json.Unmarshal(d, &m); err != nil {
		return err
	}
	if s, ok := m["s"]; ok {
		*b = Blob(s)
		return nil
	}
	x, err := base64.StdEncoding.DecodeString(m["b64"])
	*b = Blob(x)
	return err
}

// SvcConfig is what the model knows about the service.
type SvcConfig struct {
	Ifaces []string          // registered scripted interfaces, in registration order
	Descs  map[string]string // interface name → description (incl. org.varlink.service when known)
	Ident  [4]string
	// DontCareAccept: how error names with an empty <Name> part ("x.", "org.varlink.service.") are treated,
	// which the statement leaves open: true = sent like any other name, false = refused.
	DontCareAccept bool
}

func (c SvcConfig) registered(name string) bool {
	for _, n := range c.Ifaces {
		if n == name {
			return true
		}
	}
	return false
}

// wireCall mirrors the shape of a call frame (own struct, decoded with encoding/json).
type wireCall struct {
	Method     string           `json:"method"`
	Parameters *json.RawMessage `json:"parameters"`
	More       bool             `json:"more"`
	Oneway     bool             `json:"oneway"`
	Upgrade    bool             `json:"upgrade"`
}

// ExpFrame is an expected reply frame.
type ExpFrame struct {
	Kind      string // "reply" "error" "getinfo"
	Continues bool
	Error     string
	Params    []byte // nil = no parameters (absent or null)
	ForCall   int
}

// ExpInv is an expected handler invocation.
type ExpInv struct {
	Iface, Method         string
	More, Oneway, Upgrade bool
	Params                []byte // nil = Call.GetParameters must fail ("empty parameters")
	HasScript             bool
	Conn, ID              int
	Results               []bool // per executed op: true = returned nil, false = returned an error
	DontCare              []bool // per executed op: result not asserted
	RetErr                bool
	ForCall               int
}

// Route is the routing model of C04: method string → target.
// kind: "invalid" (no interface part), "service" (org.varlink.service), "iface".
func Route(method string) (kind, iface, name string) {
	r := -1
	for i := len(method) - 1; i >= 0; i-- {
		if method[i] == '.' {
			r = i
			break
		}
	}
	if r <= 0 {
		return "invalid", "", ""
	}
	iface, name = method[:r], method[r+1:]
	if iface == "org.varlink.service" {
		return "service", iface, name
	}
	return "iface", iface, name
}

// routeNaive is a second, deliberately different implementation used by the self-check.
func routeNaive(method string) (kind, iface, name string) {
	parts := strings.Split(method, ".")
	if len(parts) < 2 {
		return "invalid", "", ""
	}
	name = parts[len(parts)-1]
	iface = strings.Join(parts[:len(parts)-1], ".")
	if iface == "" {
		return "invalid", "", ""
	}
	if iface == "org.varlink.service" {
		return "service", iface, name
	}
	return "iface", iface, name
}

// ErrorNameClass classifies an error name for ReplyError (C12): "accept", "refuse", "dontcare".
func ErrorNameClass(name string) string {
	r := strings.LastIndex(name, ".")
	if r <= 0 {
		return "refuse" // no interface part
	}
	iface, nm := name[:r], name[r+1:]
	if nm == "" {
		return "dontcare" // "<interface>." — empty <Name>: the statement does not say
	}
	if iface == "org.varlink.service" {
		return "refuse"
	}
	return "accept"
}

func jsonObj(k, v string) []byte {
	b, _ := json.Marshal(map[string]string{k: v})
	return b
}

// ModelConn runs the model over the complete frames of one connection.
// alive=false means the service must end the connection after the frames it answered.
func ModelConn(cfg SvcConfig, frames [][]byte) (exp []ExpFrame, inv []ExpInv, alive bool, deadAt int) {
	alive = true
	deadAt = -1
	emit := func(call int, oneway bool, f ExpFrame) {
		if oneway {
			return
		}
		f.ForCall = call
		exp = append(exp, f)
	}
	for ci, fr := range frames {
		var wc wireCall
		if err := json.Unmarshal(fr, &wc); err != nil {
			return exp, inv, false, ci
		}
		kind, iface, name := Route(wc.Method)
		switch {
		case kind == "invalid":
			emit(ci, wc.Oneway, ExpFrame{Kind: "error", Error: "org.varlink.service.InvalidParameter", Params: jsonObj("parameter", "method")})
		case kind == "service":
			switch name {
			case "GetInfo":
				emit(ci, wc.Oneway, ExpFrame{Kind: "getinfo"})
			case "GetInterfaceDescription":
				var in struct {
					Interface string `json:"interface"`
				}
				if wc.Parameters == nil || json.Unmarshal(*wc.Parameters, &in) != nil {
					emit(ci, wc.Oneway, ExpFrame{Kind: "error", Error: "org.varlink.service.InvalidParameter", Params: jsonObj("parameter", "parameters")})
					break
				}
				d, ok := cfg.Descs[in.Interface]
				if !ok || in.Interface == "" {
					emit(ci, wc.Oneway, ExpFrame{Kind: "error", Error: "org.varlink.service.InvalidParameter", Params: jsonObj("parameter", "interface")})
					break
				}
				emit(ci, wc.Oneway, ExpFrame{Kind: "reply", Params: jsonObj("description", d)})
			default:
				emit(ci, wc.Oneway, ExpFrame{Kind: "error", Error: "org.varlink.service.MethodNotFound", Params: jsonObj("method", name)})
			}
		case !cfg.registered(iface):
			emit(ci, wc.Oneway, ExpFrame{Kind: "error", Error: "org.varlink.service.InterfaceNotFound", Params: jsonObj("interface", iface)})
		default:
			e := ExpInv{Iface: iface, Method: name, More: wc.More, Oneway: wc.Oneway, Upgrade: wc.Upgrade, Conn: -1, ID: -1, ForCall: ci}
			var sp ScriptParams
			if wc.Parameters != nil {
				e.Params = []byte(*wc.Parameters)
				if json.Unmarshal(*wc.Parameters, &sp) == nil && string(*wc.Parameters) != "null" {
					e.HasScript = true
					e.Conn, e.ID = sp.Conn, sp.ID
				} else {
					sp = ScriptParams{}
				}
			}
			dead := false
			for _, op := range sp.Script {
				ok := true
				dc := false
				switch op.Op {
				case "reply":
					if op.Continues && !wc.More {
						ok = false
					} else if Unencodable(op.Go) {
						// parameters without a JSON encoding: nothing may be written; the attempt is reported to the handler
						// (for a oneway call nothing is written either way and the result is not fixed by any statement)
						ok, dc = false, wc.Oneway
					} else {
						f := ExpFrame{Kind: "reply", Continues: op.Continues}
						if op.P != nil && string(op.P) != "null" {
							f.Params = op.P
						}
						emit(ci, wc.Oneway, f)
					}
				case "error":
					cls := ErrorNameClass(op.Name)
					if cls == "dontcare" {
						if cfg.DontCareAccept {
							cls = "accept"
						} else {
							cls = "refuse"
						}
					}
					if cls == "accept" && Unencodable(op.Go) {
						cls = "refuse"
						dc = wc.Oneway
					}
					switch cls {
					case "accept":
						f := ExpFrame{Kind: "error", Error: op.Name}
						if op.P != nil && string(op.P) != "null" {
							f.Params = op.P
						}
						emit(ci, wc.Oneway, f)
					case "refuse":
						ok = false
					default:
						dc = true
					}
				case "ifnotfound":
					emit(ci, wc.Oneway, ExpFrame{Kind: "error", Error: "org.varlink.service.InterfaceNotFound", Params: jsonObj("interface", op.S)})
				case "methodnotfound":
					emit(ci, wc.Oneway, ExpFrame{Kind: "error", Error: "org.varlink.service.MethodNotFound", Params: jsonObj("method", op.S)})
				case "notimpl":
					emit(ci, wc.Oneway, ExpFrame{Kind: "error", Error: "org.varlink.service.MethodNotImplemented", Params: jsonObj("method", op.S)})
				case "invalidparam":
					emit(ci, wc.Oneway, ExpFrame{Kind: "error", Error: "org.varlink.service.InvalidParameter", Params: jsonObj("parameter", op.S)})
				case "fail":
					e.Results = append(e.Results, false)
					e.DontCare = append(e.DontCare, false)
					e.RetErr = true
					dead = true
				}
				if dead {
					break
				}
				e.Results = append(e.Results, ok)
				e.DontCare = append(e.DontCare, dc)
				if op.Ret && !Unencodable(op.Go) {
					if !ok {
						e.RetErr = true
						dead = true
					}
					break
				}
			}
			inv = append(inv, e)
			if dead {
				return exp, inv, false, ci
			}
		}
	}
	return exp, inv, true, -1
}

// MatchFrame compares a reply frame read from the wire with the expectation; "" = match.
func MatchFrame(got []byte, e ExpFrame, cfg SvcConfig) string {
	var m map[string]json.RawMessage
	if err := json.Unmarshal(got, &m); err != nil || m == nil {
		return fmt.Sprintf("frame is not a JSON object: %s", Preview(got))
	}
	for k := range m {
		if k != "parameters" && k != "continues" && k != "error" {
			return fmt.Sprintf("frame has unexpected member %q: %s", k, Preview(got))
		}
	}
	cont := false
	if c, ok := m["continues"]; ok {
		if err := json.Unmarshal(c, &cont); err != nil {
			return "continues is not a boolean: " + Preview(got)
		}
	}
	if cont != e.Continues {
		return fmt.Sprintf("continues=%v, want %v: %s", cont, e.Continues, Preview(got))
	}
	errName := ""
	if x, ok := m["error"]; ok {
		if err := json.Unmarshal(x, &errName); err != nil {
			return "error is not a string: " + Preview(got)
		}
	}
	if errName != e.Error {
		return fmt.Sprintf("error=%q, want %q: %s", errName, e.Error, Preview(got))
	}
	p, hasP := m["parameters"]
	if hasP && string(p) == "null" {
		hasP = false
	}
	switch e.Kind {
	case "getinfo":
		if !hasP {
			return "GetInfo reply without parameters"
		}
		var r struct {
			Vendor, Product, Version, URL string
			Interfaces                    []string
		}
		var keys map[string]json.RawMessage
		if err := json.Unmarshal(p, &keys); err != nil {
			return "GetInfo parameters not an object"
		}
		for k := range keys {
			switch k {
			case "vendor", "product", "version", "url", "interfaces":
			default:
				return fmt.Sprintf("GetInfo reply has unexpected member %q", k)
			}
		}
		if err := json.Unmarshal(p, &r); err != nil {
			return "GetInfo parameters do not decode: " + err.Error()
		}
		if r.Vendor != cfg.Ident[0] || r.Product != cfg.Ident[1] || r.Version != cfg.Ident[2] || r.URL != cfg.Ident[3] {
			return fmt.Sprintf("GetInfo identity %q %q %q %q, want %q", r.Vendor, r.Product, r.Version, r.URL, cfg.Ident)
		}
		want := append([]string{"org.varlink.service"}, cfg.Ifaces...)
		if len(r.Interfaces) != len(want) {
			return fmt.Sprintf("GetInfo interfaces %q, want %q", r.Interfaces, want)
		}
		for i := range want {
			if want[i] != r.Interfaces[i] {
				return fmt.Sprintf("GetInfo interfaces %q, want %q", r.Interfaces, want)
			}
		}
		return ""
	default:
		if e.Params == nil {
			if hasP {
				return fmt.Sprintf("unexpected parameters %s (handler supplied none)", Preview(p))
			}
			return ""
		}
		if !hasP {
			return fmt.Sprintf("parameters missing, want %s", Preview(e.Params))
		}
		if d := JSONDiff(e.Params, p); d != "" {
			return "parameters differ: " + d
		}
		return ""
	}
}

// UnencodableKinds are the scripted Go values that have no JSON encoding: NaN, pre-encoded parameters (json.RawMessage, by
// value and by pointer) whose bytes are not one JSON value - a raw NUL or control byte inside a string, a truncated
// document, trailing material that would forge further members of the frame -, a channel, and Marshaler
// implementations that fail or return such bytes. A reply attempt with one of them is refused with nothing written.
var UnencodableKinds = []string{"nan", "badraw-nul", "badraw-trunc", "badraw-tail", "badrawptr-nul", "badrawptr-tail", "badchan", "badmarshaler-err", "badmarshaler-bytes"}

// Unencodable reports whether a scripted Go value kind has no JSON encoding.
func Unencodable(kind string) bool {
	return kind == "nan" || strings.HasPrefix(kind, "bad")
}
