package props

// C10 Service survives arbitrary and aborted client byte streams.
//
// Case = a client byte stream (valid calls to the scripted dispatcher, mutated frames,
// wrong-shape JSON, random bytes) under a cut plan, with an abort point, while a second,
// well-behaved probe connection does GetInfo before / during / after. Oracle: ModelConn on the
// complete frames of the sent prefix (dispatch log, replies, connection fate), release of the
// connection (active count, Shutdown or idle-timeout ends serving, no library goroutine left),
// and the process surviving (the case is recorded before execution).

import (
	"bytes"
	"context"
	"encoding/json"
	"fmt"
	"net"
	"strings"
	"sync/atomic"
	"testing"
	"time"

	"github.com/varlink/go/varlink"
	"pgregory.net/rapid"
)

func c10ValidCall(t *rapid.T, ifaces []string, id int) []byte {
	switch rapid.IntRange(0, 9).Draw(t, "vkind") {
	case 0:
		return EncodeCall("org.varlink.service.GetInfo", nil, false, false, false)
	case 1:
		return EncodeCall("org.varlink.service.GetInterfaceDescription", jsonObj("interface", ifaces[0]), false, false, false)
	case 2:
		return EncodeCall("no.such.Iface.M", genParamsObj(t), false, rapid.Bool().Draw(t, "ow"), false)
	case 3: // a big reply (the client may vanish while it is being written)
		n := rapid.SampledFrom([]int{5000, 70000, 300000}).Draw(t, "big")
		sp := ScriptParams{Conn: 0, ID: id, Script: []Op{{Op: "reply", P: json.RawMessage(`{"big":` + BigString(n) + `}`)}}}
		b, _ := json.Marshal(sp)
		return EncodeCall(ifaces[0]+".Big", b, false, false, false)
	case 4: // a more-sequence
		k := rapid.IntRange(1, 5).Draw(t, "k")
		sp := ScriptParams{Conn: 0, ID: id}
		for i := 0; i < k; i++ {
			sp.Script = append(sp.Script, Op{Op: "reply", Continues: true, P: json.RawMessage(fmt.Sprintf(`{"i":%d}`, i))})
		}
		sp.Script = append(sp.Script, Op{Op: "reply", P: json.RawMessage(`{"last":true}`)})
		b, _ := json.Marshal(sp)
		return EncodeCall(ifaces[0]+".More", b, true, false, false)
	default:
		return genCall(t, ifaces, 0, id)
	}
}

var c10Hostile = []string{"null", " null ", "nul", "nulll", "{}", "[]", "0", "\"\"", "true", "{", "}", "[", "{\"method\":", "{\"method\":\"a.b\"", "{\"method\":\"x.y.M\"}}",
	"{\"method\":\"x.y.M\"} x", "{\"method\":\"x.y.M\"}{\"method\":\"x.y.N\"}", "{\"method\":\"x.y.M\"}]", "\xff\xfe", "{\"method\":\"\xff\"}", "\xef\xbb\xbf{\"method\":\"x.y.M\"}",
	"{\"method\":\"x.y.M\",\"parameters\":null}", "{\"method\":\"x.y.M\",\"parameters\":{\"script\":17}}", "{\"method\":\"x.y.M\",\"parameters\":{\"script\":[{\"op\":\"reply\"}]},\"more\":null}",
	"{\"method\":\"x.y.M\",\"more\":0}", "{\"method\":\"x.y.M\",\"upgrade\":\"1\"}", "{\"method\":\"x.y.M\",\"method\":\"x.y.N\"}", "{\"METHOD\":\"x.y.M\"}",
	"[{\"method\":\"x.y.M\"}]", "{\"method\":[]}", "{\"method\":{}}", "{\"method\":1e3}", "\t{\"method\":\"x.y.M\"}\n", "{\"method\":\"x.y.M\"}\n", "\n"}

// mutateFrame applies one byte-level mutation to a frame.
func mutateFrame(t *rapid.T, f []byte) []byte {
	f = append([]byte(nil), f...)
	switch rapid.IntRange(0, 7).Draw(t, "mut") {
	case 0: // truncate
		if len(f) > 0 {
			return f[:rapid.IntRange(0, len(f)-1).Draw(t, "trunc")]
		}
	case 1: // flip a byte
		if len(f) > 0 {
			p := rapid.IntRange(0, len(f)-1).Draw(t, "pos")
			f[p] ^= byte(1 << rapid.IntRange(0, 7).Draw(t, "bit"))
			if f[p] == 0 {
				f[p] = 1
			}
		}
	case 2: // delete a byte
		if len(f) > 0 {
			p := rapid.IntRange(0, len(f)-1).Draw(t, "pos")
			return append(f[:p], f[p+1:]...)
		}
	case 3: // insert a byte
		p := rapid.IntRange(0, len(f)).Draw(t, "pos")
		v := rapid.SampledFrom([]byte{'{', '}', '[', ']', '"', ',', ':', ' ', 'x', '\\', 0x80, 0xff, '\n'}).Draw(t, "val")
		return append(f[:p], append([]byte{v}, f[p:]...)...)
	case 4: // trailing garbage
		return append(f, []byte(rapid.SampledFrom([]string{"}", " x", "]", "{}", ",", "null", "\x01"}).Draw(t, "tg"))...)
	case 5: // leading garbage
		return append([]byte(rapid.SampledFrom([]string{"{", "x", "[", ",", "\xef\xbb\xbf", "null"}).Draw(t, "lg")), f...)
	case 6: // duplicate (two values in one frame)
		return append(f, f...)
	default: // wrap
		return append(append([]byte("["), f...), ']')
	}
	return f
}

// genC10Stream draws the raw client byte stream; NULs terminate frames.
func genC10Stream(t *rapid.T, ifaces []string) []byte {
	var b bytes.Buffer
	n := rapid.IntRange(1, 7).Draw(t, "nframes")
	for i := 0; i < n; i++ {
		var f []byte
		switch rapid.IntRange(0, 11).Draw(t, "fkind") {
		case 0, 1, 2, 3, 4, 5:
			f = c10ValidCall(t, ifaces, i)
		case 6, 7:
			f = mutateFrame(t, c10ValidCall(t, ifaces, i))
		case 8:
			f = []byte(rapid.SampledFrom(c10Hostile).Draw(t, "hostile"))
		case 9:
			f = []byte(rapid.SampledFrom(wrongShapeFrames).Draw(t, "wrong"))
		case 10:
			f = rapid.SliceOfN(rapid.Byte(), 0, 40).Draw(t, "rand")
		default: // a NUL inside a would-be frame (splits it)
			f = c10ValidCall(t, ifaces, i)
			p := rapid.IntRange(0, len(f)).Draw(t, "nulpos")
			f = append(f[:p:p], append([]byte{0}, f[p:]...)...)
		}
		b.Write(f)
		if i < n-1 || rapid.IntRange(0, 3).Draw(t, "term") != 0 {
			b.WriteByte(0)
		}
	}
	return b.Bytes()
}

func connFromStream(stream []byte) ConnCase {
	frames, rest := SplitFrames(stream)
	cc := ConnCase{AbortAt: -1}
	for _, f := range frames {
		cc.Frames = append(cc.Frames, Blob(f))
	}
	if len(rest) > 0 {
		cc.Tail = Blob(rest)
	}
	return cc
}

func genC10(t *rapid.T) ProtoCase {
	c := ProtoCase{Ifaces: genIfaces(t), Transport: "pipe", Probe: true, Origin: "C10"}
	if rapid.IntRange(0, 5).Draw(t, "unix") == 0 {
		c.Transport = "unix"
	} else if rapid.IntRange(0, 2).Draw(t, "idle") == 0 {
		c.IdleEnd = true
	}
	nconn := rapid.IntRange(1, 2).Draw(t, "nconn")
	for k := 0; k < nconn; k++ {
		stream := genC10Stream(t, c.Ifaces)
		cc := connFromStream(stream)
		switch rapid.IntRange(0, 19).Draw(t, "abort") {
		case 0, 1, 2, 3, 6, 7, 8, 9: // abort at a random offset
			cc.AbortAt = rapid.IntRange(0, len(stream)).Draw(t, "abort_at")
		case 4, 10, 11: // abort right before / at / after a NUL
			var nuls []int
			for i, x := range stream {
				if x == 0 {
					nuls = append(nuls, i)
				}
			}
			if len(nuls) > 0 {
				p := rapid.SampledFrom(nuls).Draw(t, "nul") + rapid.IntRange(-1, 1).Draw(t, "delta")
				if p < 0 {
					p = 0
				}
				if p > len(stream) {
					p = len(stream)
				}
				cc.AbortAt = p
			}
		case 5:
			cc.NoRead = true
		}
		cc.Cuts = genCuts(t, stream)
		c.Conns = append(c.Conns, cc)
	}
	if nconn > 1 {
		// multi-connection cases need the connection tag in every dispatched script; streams are
		// generated with tag 0, so retag is done by restricting multi-connection cases to tag-free checks
		c.Conns = c.Conns[:1]
	}
	return c
}

func c10Labels(c ProtoCase) (bool, []string) {
	nt := false
	labels := []string{"transport:" + c.Transport}
	if c.IdleEnd {
		labels = append(labels, "end:idle-timeout")
	} else {
		labels = append(labels, "end:shutdown")
	}
	cfg := SvcConfig{Ifaces: c.Ifaces, Descs: map[string]string{}}
	for _, cc := range c.Conns {
		stream := cc.stream()
		frames := make([][]byte, len(cc.Frames))
		for i := range cc.Frames {
			frames[i] = cc.Frames[i]
		}
		inFrame := false
		if cc.AbortAt >= 0 && cc.AbortAt <= len(stream) {
			pre := stream[:cc.AbortAt]
			frames, _ = SplitFrames(pre)
			inFrame = len(pre) > 0 && pre[len(pre)-1] != 0 && cc.AbortAt < len(stream)
			labels = append(labels, "abort:offset")
			if inFrame {
				labels = append(labels, "abort:inside-frame")
			}
		} else if len(cc.Tail) > 0 {
			inFrame = true
			labels = append(labels, "abort:unterminated-tail")
		}
		if cc.NoRead {
			labels = append(labels, "abort:never-reads")
		}
		_, inv, alive, deadAt := ModelConn(cfg, frames)
		if !alive && deadAt >= 0 && (len(inv) == 0 || !inv[len(inv)-1].RetErr) {
			labels = append(labels, "ends:bad-frame")
			if deadAt >= 1 {
				nt = true
			}
		}
		if inFrame && len(frames) >= 1 {
			nt = true
		}
		if cc.NoRead && len(frames) >= 1 {
			nt = true
		}
	}
	return nt, labels
}

func checkC10(c ProtoCase, st *Stats) error {
	SavePending("C10", "C10", c)
	_, err := ExecProto(c, protoBound)
	ClearPending()
	nt, labels := c10Labels(c)
	st.Case(HashOf(c), nt, func() interface{} { return c }, labels...)
	return err
}

var propC10 = Register(Prop[ProtoCase]{ID: "C10", Name: "C10", Pending: true, Check: checkC10})

func TestC10Rapid(t *testing.T) {
	p := propC10
	p.Gen = genC10
	RunRapid(t, p, "C10Rapid")
}

// TestC10Aborts: for a fixed set of streams, a client abort at every byte offset
// (bounded-exhaustive per stream), on the pipe transport and on a unix socket (half-close,
// read to EOF).
func TestC10Aborts(t *testing.T) {
	ifaces := []string{"x.y"}
	script := func(id int, ops ...Op) []byte {
		b, _ := json.Marshal(ScriptParams{Conn: 0, ID: id, Script: ops})
		return b
	}
	rep := Op{Op: "reply", P: json.RawMessage(`{"ok":1}`)}
	streams := [][]byte{
		joinFrames(EncodeCall("x.y.M", script(0, rep), false, false, false), EncodeCall("x.y.N", script(1, rep), false, false, false)),
		joinFrames(EncodeCall("org.varlink.service.GetInfo", nil, false, false, false), EncodeCall("x.y.M", script(1, rep), false, true, false), EncodeCall("x.y.N", script(2, rep), false, false, false)),
		joinFrames(EncodeCall("x.y.M", script(0, Op{Op: "reply", Continues: true, P: json.RawMessage(`{"i":0}`)}, rep), true, false, false), []byte("null"), EncodeCall("x.y.N", script(2, rep), false, false, false)),
		joinFrames(EncodeCall("x.y.M", script(0, rep), false, false, false), []byte(`{"method":"x.y.Bad"}}`), EncodeCall("x.y.N", script(2, rep), false, false, false)),
		joinFrames(EncodeCall("a.b.C", nil, false, false, false), EncodeCall("NoDot", nil, false, false, false), EncodeCall("x.y.F", script(2, Op{Op: "fail"}), false, false, false), EncodeCall("x.y.N", script(3, rep), false, false, false)),
	}
	if Thorough() {
		streams = append(streams,
			joinFrames(EncodeCall("x.y.Big", script(0, Op{Op: "reply", P: json.RawMessage(`{"big":` + BigString(9000) + `}`)}), false, false, false), EncodeCall("x.y.N", script(1, rep), false, false, false)),
			joinFrames(EncodeCall("x.y.M", []byte(`{"conn":0,"id":0,"script":[],"pad":`+BigString(5000)+`}`), false, false, false), EncodeCall("x.y.N", script(1, rep), false, false, false)))
	}
	shard, nshards := Shard()
	type item struct {
		si, off int
		tr      string
	}
	var items []item
	for si, s := range streams {
		for off := 0; off <= len(s); off++ {
			items = append(items, item{si, off, "pipe"})
			if off%3 == 0 || Thorough() {
				items = append(items, item{si, off, "unix"})
			}
		}
	}
	i := 0
	next := func() (ProtoCase, bool) {
		for i < len(items) {
			k := i
			i++
			if k%nshards != shard {
				continue
			}
			it := items[k]
			cc := connFromStream(streams[it.si])
			cc.AbortAt = it.off
			if k%5 == 0 {
				cc.Cuts = []int{1}
			}
			return ProtoCase{Ifaces: ifaces, Conns: []ConnCase{cc}, Transport: it.tr, Probe: k%4 == 0, IdleEnd: k%2 == 1, Origin: "C10Aborts"}, true
		}
		return ProtoCase{}, false
	}
	RunCases(t, propC10, "C10Aborts", true, next)
}

// TestC10ManyConns: one service, many client connections (40-160), most of which the service itself has to end (a
// frame that is not a call, a failing handler, a client that aborts inside a frame or while a reply is being written),
// interleaved with well-behaved ones. Whatever the service keeps per ended connection must not pile up: every
// connection is judged by the model, the count returns to zero, and serving ends by Shutdown or by the idle timeout.
func TestC10ManyConns(t *testing.T) {
	ifaces := []string{"x.y"}
	rep := Op{Op: "reply", P: json.RawMessage(`{"ok":1}`)}
	script := func(conn, id int, ops ...Op) []byte {
		b, _ := json.Marshal(ScriptParams{Conn: conn, ID: id, Script: ops})
		return b
	}
	mk := func(n int, kinds []int, tr string, idle bool) ProtoCase {
		c := ProtoCase{Ifaces: ifaces, Transport: tr, Probe: true, IdleEnd: idle, Origin: "C10ManyConns"}
		for i := 0; i < n; i++ {
			var cc ConnCase
			switch kinds[i%len(kinds)] {
			case 0: // a frame that is not a call ends the connection; the call behind it is never dispatched
				cc = connFromStream(joinFrames(EncodeCall("x.y.M", script(i, 0, rep), false, false, false), []byte(`[1,2]`), EncodeCall("x.y.N", script(i, 2, rep), false, false, false)))
			case 1: // the handler fails
				cc = connFromStream(joinFrames(EncodeCall("x.y.F", script(i, 0, Op{Op: "fail", S: failKinds[i%len(failKinds)]}), false, false, false), EncodeCall("x.y.N", script(i, 1, rep), false, false, false)))
			case 2: // ill-formed JSON
				cc = connFromStream(joinFrames([]byte(`{"method":"x.y.M"}}`)))
			case 3: // the client aborts inside its second frame
				st := joinFrames(EncodeCall("x.y.M", script(i, 0, rep), false, false, false), EncodeCall("x.y.N", script(i, 1, rep), false, false, false))
				cc = connFromStream(st)
				cc.AbortAt = len(st) - 7
			case 4: // the client vanishes while a large reply is being written to it
				cc = connFromStream(joinFrames(EncodeCall("x.y.Big", script(i, 0, Op{Op: "reply", P: json.RawMessage(`{"big":` + BigString(300000) + `}`)}), false, false, false)))
				cc.NoRead = true
			default: // a well-behaved client
				cc = connFromStream(joinFrames(EncodeCall("org.varlink.service.GetInfo", nil, false, false, false), EncodeCall("x.y.M", script(i, 1, rep), false, false, false)))
			}
			if cc.AbortAt == 0 {
				cc.AbortAt = -1
			}
			c.Conns = append(c.Conns, cc)
		}
		return c
	}
	cases := []ProtoCase{
		mk(40, []int{0}, "pipe", false), mk(70, []int{1}, "pipe", true), mk(48, []int{2}, "unix", false), mk(64, []int{0, 1, 2, 5}, "pipe", true),
		mk(40, []int{3, 5}, "pipe", false), mk(36, []int{4, 5, 0}, "unix", false), mk(160, []int{0, 1, 2, 3, 5}, "pipe", false),
	}
	if Thorough() {
		cases = append(cases, mk(400, []int{0, 1, 2, 3, 5}, "pipe", true), mk(300, []int{0, 1, 2, 5}, "unix", false), mk(120, []int{4, 0}, "unix", false))
	}
	shard, nshards := Shard()
	i := 0
	next := func() (ProtoCase, bool) {
		for i < len(cases) {
			k := i
			i++
			if k%nshards == shard {
				return cases[k], true
			}
		}
		return ProtoCase{}, false
	}
	p := propC10
	p.Check = func(c ProtoCase, st *Stats) error {
		_, err := ExecProto(c, 3*protoBound)
		st.Case(HashOf(c), true, nil, "many-connections", "transport:"+c.Transport, fmt.Sprintf("connections:%d", len(c.Conns)))
		return err
	}
	RunCases(t, p, "C10ManyConns", true, next)
}

func joinFrames(frames ...[]byte) []byte {
	var b bytes.Buffer
	for _, f := range frames {
		b.Write(f)
		b.WriteByte(0)
	}
	return b.Bytes()
}

// FuzzC10: the fuzzer's bytes are the client stream (first byte: cut size, second: abort selector).
func FuzzC10(f *testing.F) {
	rep := `{"conn":0,"id":0,"script":[{"op":"reply","p":{"ok":1}}]}`
	seeds := [][]byte{
		joinFrames(EncodeCall("x.y.M", []byte(rep), false, false, false)),
		joinFrames(EncodeCall("org.varlink.service.GetInfo", nil, false, false, false), []byte("null")),
		joinFrames([]byte(`{"method":"x.y.M","more":true,"parameters":{"conn":0,"id":0,"script":[{"op":"reply","continues":true},{"op":"reply"}]}}`)),
		[]byte("null\x00"), []byte("{}\x00"), []byte("[]\x00"), []byte("\x00"), []byte(`{"method":"x.y.M"}`), []byte(`{"method":"x.y.M"}}` + "\x00"),
		[]byte(`{"method":"x.y.M","oneway":true}` + "\x00" + `{"method":"a.b"}` + "\x00"),
	}
	for _, h := range c10Hostile {
		seeds = append(seeds, append([]byte(h), 0))
	}
	for _, s := range seeds {
		f.Add(append([]byte{0, 0}, s...))
		f.Add(append([]byte{1, 200}, s...))
	}
	st := NewStats("FuzzC10")
	f.Fuzz(func(t *testing.T, b []byte) {
		if len(b) < 2 || len(b) > 8192 {
			return
		}
		cut, ab, stream := int(b[0]), int(b[1]), b[2:]
		cc := connFromStream(stream)
		if cut > 0 {
			cc.Cuts = []int{cut}
		}
		if ab >= 128 && len(stream) > 0 {
			cc.AbortAt = (ab - 128) * len(stream) / 127
		}
		c := ProtoCase{Ifaces: []string{"x.y"}, Conns: []ConnCase{cc}, Transport: "pipe", Origin: "fuzz"}
		if err := Guard(func() error { return checkC10(c, st) }); err != nil {
			SaveFailing("C10", "C10", c, err.Error())
			t.Fatalf("C10 violated: %v", err)
		}
	})
}

// TestC10Vanished: "after the peer disappears mid-reply the connection's resources are released". A subscription
// handler - the usual monitor pattern - keeps sending continues-replies until a reply attempt FAILS; the client reads a
// few of them and vanishes. The handler must learn about it (its next reply attempts fail) and return, the connection
// count must go back to zero, and Shutdown must end serving. A handler that is still producing replies for the vanished
// client after the bound has been told that its writes succeed.
// VanishCase: one subscription whose client vanishes.
type VanishCase struct {
	Transport string `json:"transport"`
	Read      int    `json:"read"` // frames the client reads before it closes
	Pad       int    `json:"pad"`
}

func execVanished(c VanishCase) error {
	bound := protoBound * WatchdogScale()
	env, err := startE2E([]string{"x.y"}, c.Transport, false)
	if err != nil {
		return err
	}
	var stop int32
	var sent int64
	ended := make(chan error, 1)
	for _, si := range env.ifs {
		si.Hook = func(ctx context.Context, call *varlink.Call, op Op) (OpResult, error) {
			if op.Op != "stream" {
				return OpResult{}, nil
			}
			pad := strings.Repeat("s", c.Pad)
			var err error
			for atomic.LoadInt32(&stop) == 0 {
				call.Continues = true
				if err = call.Reply(ctx, map[string]interface{}{"n": atomic.AddInt64(&sent, 1), "pad": pad}); err != nil {
					break
				}
			}
			ended <- err
			return OpResult{}, err
		}
	}
	var conn net.Conn
	if c.Transport == "pipe" {
		conn = env.fake.Connect()
	} else {
		network, target := "unix", env.sockPath
		if c.Transport == "tcp" {
			network, target = "tcp", env.address[len("tcp:"):]
		}
		for dl := time.Now().Add(bound); time.Now().Before(dl); {
			if conn, err = net.Dial(network, target); err == nil {
				break
			}
			time.Sleep(time.Millisecond)
		}
		if err != nil {
			env.svc.Shutdown()
			env.cleanup()
			return fmt.Errorf("HARNESS: dial: %v", err)
		}
	}
	b, _ := json.Marshal(ScriptParams{Conn: 0, ID: 0, Script: []Op{{Op: "stream"}}})
	conn.SetWriteDeadline(time.Now().Add(bound))
	conn.Write(append(EncodeCall("x.y.Monitor", b, true, false, false), 0))
	if c.Read > 0 {
		got, _, _ := readFrames(conn, c.Read, bound)
		if fr, _ := SplitFrames(got); len(fr) < c.Read {
			atomic.StoreInt32(&stop, 1)
			conn.Close()
			env.svc.Shutdown()
			env.cleanup()
			return fmt.Errorf("the subscriber received %d of the first %d replies", len(fr), c.Read)
		}
	}
	conn.Close() // the subscriber vanishes while replies keep coming
	select {
	case herr := <-ended:
		if herr == nil {
			return fmt.Errorf("HARNESS: the stream handler stopped without a failing reply")
		}
	case <-time.After(bound):
		n := atomic.LoadInt64(&sent)
		atomic.StoreInt32(&stop, 1)
		env.svc.Shutdown()
		return fmt.Errorf("on %s the subscriber vanished after %d replies, but %v later the handler's reply attempts still do not fail (%d replies \"sent\" so far): the connection is never released", c.Transport, c.Read, bound, n)
	}
	return env.stop(bound)
}

var propC10Vanished = Register(Prop[VanishCase]{ID: "C10", Name: "C10vanished", Check: func(c VanishCase, st *Stats) error {
	err := execVanished(c)
	st.Case(HashOf(c), true, func() interface{} { return c }, "vanished-subscriber", "transport:"+c.Transport)
	return err
}})

func TestC10Vanished(t *testing.T) {
	var cases []VanishCase
	for _, tr := range []string{"pipe", "unixabs", "tcp"} {
		for _, rd := range []int{0, 3} {
			for _, pad := range []int{10, 20000} {
				cases = append(cases, VanishCase{tr, rd, pad})
			}
		}
	}
	shard, nshards := Shard()
	i := 0
	next := func() (VanishCase, bool) {
		for i < len(cases) {
			k := i
			i++
			if k%nshards == shard {
				return cases[k], true
			}
		}
		return VanishCase{}, false
	}
	RunCases(t, propC10Vanished, "C10Vanished", true, next)
}
