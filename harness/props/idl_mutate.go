package props

import (
	"strings"
	"unicode/utf8"

	"pgregory.net/rapid"
)

// MutAlphabet is the token alphabet used for insertions and substitutions.
var MutAlphabet = []string{
	"(", ")", ",", ":", "?", "[]", "[string]", "[int]", "[", "]", "->", "-", ">",
	"type", "method", "error", "interface", "bool", "int", "float", "string", "object",
	"T", "x", "a", "9", "_", "#", ".", ";", "??", "()", "\n", " ", "=", "{", "}", "a.b",
}

// RenderTokens joins a token slice (gaps rendered by l, tokens verbatim). Used for mutants,
// where docs are not relevant: doc-bearing gaps get no doc block.
func RenderTokens(toks []Tok, l Layouter) string {
	var b strings.Builder
	for _, t := range toks {
		if t.Gap == "" {
			b.WriteString(t.Text)
		} else {
			b.WriteString(l.Gap(t.Gap, "none", nil))
		}
	}
	return b.String()
}

func tokenIndexes(toks []Tok) []int {
	var idx []int
	for i, t := range toks {
		if t.Gap == "" {
			idx = append(idx, i)
		}
	}
	return idx
}

// SingleTokenMutants calls f with every single-token deletion, substitution, insertion
// and adjacent transposition of toks (only real tokens are touched; gaps stay).
// Returns the number of mutants produced; f returning false stops.
func SingleTokenMutants(toks []Tok, f func(kind string, m []Tok) bool) int {
	idx := tokenIndexes(toks)
	n := 0
	clone := func() []Tok { return append([]Tok(nil), toks...) }
	for _, i := range idx {
		// deletion
		m := clone()
		m = append(m[:i], m[i+1:]...)
		n++
		if !f("delete", m) {
			return n
		}
		// substitution
		for _, a := range MutAlphabet {
			if a == toks[i].Text {
				continue
			}
			m := clone()
			m[i] = Tok{Text: a}
			n++
			if !f("subst", m) {
				return n
			}
		}
		// insertion before token i
		for _, a := range MutAlphabet {
			m := append(append(append([]Tok(nil), toks[:i]...), Tok{Text: a}), toks[i:]...)
			n++
			if !f("insert", m) {
				return n
			}
		}
	}
	// insertion at the very end
	for _, a := range MutAlphabet {
		m := append(clone(), Tok{Text: a})
		n++
		if !f("insert", m) {
			return n
		}
	}
	// transposition of neighbouring tokens
	for k := 0; k+1 < len(idx); k++ {
		i, j := idx[k], idx[k+1]
		if toks[i].Text == toks[j].Text {
			continue
		}
		m := clone()
		m[i], m[j] = m[j], m[i]
		n++
		if !f("transpose", m) {
			return n
		}
	}
	return n
}

// GenMutant draws a random multi-edit mutant (token or character level) of text/toks.
func GenMutant(t *rapid.T, toks []Tok, l Layouter) string {
	edits := rapid.IntRange(1, 3).Draw(t, "edits")
	m := append([]Tok(nil), toks...)
	for e := 0; e < edits; e++ {
		idx := tokenIndexes(m)
		if len(idx) == 0 {
			break
		}
		i := idx[rapid.IntRange(0, len(idx)-1).Draw(t, "at")]
		switch rapid.IntRange(0, 3).Draw(t, "editkind") {
		case 0:
			m = append(m[:i:i], m[i+1:]...)
		case 1:
			m[i] = Tok{Text: rapid.SampledFrom(MutAlphabet).Draw(t, "tok")}
		case 2:
			ins := Tok{Text: rapid.SampledFrom(MutAlphabet).Draw(t, "tok")}
			m = append(append(append([]Tok(nil), m[:i]...), ins), m[i:]...)
		default:
			j := idx[rapid.IntRange(0, len(idx)-1).Draw(t, "with")]
			m[i], m[j] = m[j], m[i]
		}
	}
	s := RenderTokens(m, l)
	// optional character-level edits
	ce := rapid.IntRange(0, 2).Draw(t, "charedits")
	b := []byte(s)
	for e := 0; e < ce && len(b) > 0; e++ {
		p := rapid.IntRange(0, len(b)-1).Draw(t, "cpos")
		switch rapid.IntRange(0, 2).Draw(t, "ckind") {
		case 0:
			b = append(b[:p:p], b[p+1:]...)
		case 1:
			b[p] = rapid.SampledFrom([]byte("()[]?:,->#\n\t\r .;_-x9A\x00\xff\"`")).Draw(t, "cbyte")
		default:
			c := rapid.SampledFrom([]byte("()[]?:,->#\n\t\r .;_-x9A\x00\xff\"`")).Draw(t, "cbyte")
			b = append(append(append([]byte(nil), b[:p]...), c), b[p:]...)
		}
	}
	return string(b)
}

// Preview returns a printable, bounded rendering of arbitrary bytes for samples.
func Preview(b []byte) string {
	s := string(b)
	if len(s) > 300 {
		s = s[:300] + "…"
	}
	if !utf8.ValidString(s) {
		s = strings.ToValidUTF8(s, "�")
	}
	return s
}
