package props

// Token-stream printer for Iface with pluggable layout (the whitespace/comment
// string placed in every gap between two tokens), plus rapid generators for
// trees and layouts, and a token-level mutator.

import (
	"strings"

	"pgregory.net/rapid"
)

// Gap classes.
const (
	GapOpt      = "opt"      // may be empty; spaces, tabs, CR, LF, comments
	GapMand     = "mand"     // like opt but never empty
	GapSameLine = "sameline" // spaces and tabs only, may be empty
	GapKwName   = "kwname"   // between member keyword and name, non-empty; restricted by doc mode
	GapSep      = "sep"      // between members (and after the interface name): contains a newline
	GapLead     = "lead"     // before the interface keyword (or its doc block)
	GapEnd      = "end"      // end of input
)

// Tok is one element of the printed token stream.
type Tok struct {
	Text string `json:"t"`
	Gap  string `json:"g,omitempty"` // non-empty: this element is a gap of that class
	// context for gap policy
	DocMode string `json:"-"`
}

// Tokens prints the tree as tokens and gaps. Doc blocks are emitted as part of the
// gap handling by the layout (see Layouter), so they do not appear here.
func Tokens(i *Iface) []Tok {
	var out []Tok
	tok := func(s string) { out = append(out, Tok{Text: s}) }
	gap := func(class string, mode string) { out = append(out, Tok{Gap: class, DocMode: mode}) }
	var ty func(t *Ty)
	ty = func(t *Ty) {
		switch t.K {
		case "bool", "int", "float", "string", "object":
			tok(t.K)
		case "alias":
			tok(t.Alias)
		case "array":
			tok("[]")
			ty(t.Elem)
		case "map":
			tok("[string]")
			ty(t.Elem)
		case "maybe":
			tok("?")
			ty(t.Elem)
		case "struct", "enum":
			tok("(")
			gap(GapOpt, "")
			for idx, f := range t.Fields {
				if idx > 0 {
					gap(GapOpt, "")
					tok(",")
					gap(GapOpt, "")
				}
				tok(f.Name)
				if f.T != nil {
					gap(GapOpt, "")
					tok(":")
					gap(GapOpt, "")
					ty(f.T)
				}
			}
			if len(t.Fields) > 0 {
				gap(GapOpt, "")
			}
			tok(")")
		}
	}
	gap(GapLead, i.DocMode)
	tok("interface")
	gap(GapKwName, i.DocMode)
	tok(i.Name)
	for _, m := range i.Members {
		gap(GapSep, m.DocMode)
		tok(m.Kind)
		gap(GapKwName, m.DocMode)
		tok(m.Name)
		switch m.Kind {
		case "type":
			gap(GapOpt, "")
			ty(m.T)
		case "method":
			gap(GapOpt, "")
			ty(m.In)
			gap(GapOpt, "")
			tok("->")
			gap(GapOpt, "")
			ty(m.Out)
		case "error":
			if m.T != nil {
				gap(GapSameLine, "")
				ty(m.T)
			}
		}
	}
	gap(GapEnd, "")
	return out
}

// Layouter supplies gap strings. docs[k] is the doc block for the k-th doc-bearing
// gap (lead gap = interface doc, sep gaps = member docs) in order.
type Layouter interface {
	Gap(class, docMode string, doc []string) string
}

// Render joins tokens using l; doc blocks are attached to the lead and sep gaps.
func Render(i *Iface, l Layouter) string {
	toks := Tokens(i)
	var b strings.Builder
	sepIdx := 0
	for _, t := range toks {
		if t.Gap == "" {
			b.WriteString(t.Text)
			continue
		}
		var doc []string
		switch t.Gap {
		case GapLead:
			doc = i.Doc
		case GapSep:
			doc = i.Members[sepIdx].Doc
			sepIdx++
		}
		b.WriteString(l.Gap(t.Gap, t.DocMode, doc))
	}
	return b.String()
}

func docBlock(doc []string, eol string) string {
	var b strings.Builder
	for _, l := range doc {
		if l == "" {
			b.WriteString("#" + eol)
		} else {
			b.WriteString("# " + l + eol)
		}
	}
	return b.String()
}

// FixedLayout is one of the deterministic layouts used for enumerated trees.
type FixedLayout int

// The fixed layouts.
const (
	LayoutCompact   FixedLayout = iota // nothing optional
	LayoutSpaced                       // one space in every gap, "\n\n" between members
	LayoutCommented                    // every optional gap = newline + comment line
	LayoutCRLF                         // CRLF line ends, tabs
	LayoutEmptyCmt                     // gaps with empty comments "#\n"
	NumFixedLayouts
)

// Gap implements Layouter.
func (f FixedLayout) Gap(class, mode string, doc []string) string {
	eol := "\n"
	if f == LayoutCRLF {
		eol = "\r\n"
	}
	d := ""
	if mode == "blocktail" {
		mode = "block" // (only the rapid layout puts a remark on the preceding line)
	}
	if mode == "block" {
		d = docBlock(doc, eol)
	}
	switch f {
	case LayoutCompact:
		switch class {
		case GapOpt, GapSameLine, GapEnd:
			return ""
		case GapMand, GapKwName:
			return " "
		case GapSep:
			if d != "" {
				return "\n\n" + d
			}
			return "\n"
		case GapLead:
			return d
		}
	case LayoutSpaced:
		switch class {
		case GapOpt, GapSameLine, GapMand, GapKwName:
			return " "
		case GapSep:
			return " \n\n" + d
		case GapLead:
			if d != "" {
				return "\n" + d
			}
			return "  \n "
		case GapEnd:
			return "\n"
		}
	case LayoutCommented:
		switch class {
		case GapOpt, GapMand:
			return "\n  # a comment (with) [tokens] -> : , ? inside\n\t"
		case GapSameLine:
			return "  "
		case GapKwName:
			if mode == "block" {
				return " \t"
			}
			if mode == "free" {
				return " # c\n "
			}
			return " \n "
		case GapSep:
			if mode == "none" {
				return "\n \n\t \n"
			}
			return " # trailing comment\n\n" + d
		case GapLead:
			if mode == "none" {
				return "\n\n  "
			}
			return "# leading block\n# of two lines\n\n" + d
		case GapEnd:
			return "\n# final comment without newline"
		}
	case LayoutCRLF:
		switch class {
		case GapOpt, GapMand:
			return "\r\n\t"
		case GapSameLine:
			return "\t"
		case GapKwName:
			if mode == "block" {
				return "\t"
			}
			return "\r\n\t"
		case GapSep:
			return "\r\n\r\n" + d
		case GapLead:
			return "\r\n" + d
		case GapEnd:
			return "\r\n"
		}
	case LayoutEmptyCmt:
		switch class {
		case GapOpt, GapMand:
			return " #\n "
		case GapSameLine:
			return ""
		case GapKwName:
			if mode == "free" {
				return " #\n"
			}
			return " "
		case GapSep:
			if mode == "none" {
				return "\n"
			}
			return " #\n\n" + d
		case GapLead:
			if mode == "none" {
				return ""
			}
			return "#\n\n" + d
		case GapEnd:
			return "\n#"
		}
	}
	return " "
}

// ---------------------------------------------------------------------------
// rapid generators

var idlKeywords = []string{"interface", "type", "method", "error", "bool", "int", "float", "string", "object"}

func genFieldName(t *rapid.T, label string) string {
	if rapid.IntRange(0, 9).Draw(t, label+"kw") == 0 {
		return rapid.SampledFrom(idlKeywords).Draw(t, label)
	}
	return rapid.StringMatching(`[a-z](_?[A-Za-z0-9]){0,8}`).Draw(t, label)
}

func genMemberName(t *rapid.T, label string) string {
	return rapid.StringMatching(`[A-Z][A-Za-z0-9]{0,8}`).Draw(t, label)
}

func genInterfaceName(t *rapid.T) string {
	if rapid.IntRange(0, 19).Draw(t, "xn") == 0 {
		return rapid.StringMatching(`xn--[a-z0-9]{1,6}(\.[a-z0-9]{1,5}(-[a-z0-9]{1,4}){0,2}){1,3}`).Draw(t, "iname")
	}
	return rapid.StringMatching(`[a-zA-Z]{1,6}(\.[a-zA-Z0-9]{1,6}(-[a-zA-Z0-9]{1,4}){0,2}){1,4}`).Draw(t, "iname")
}

func distinctNames(t *rapid.T, n int, gen func(*rapid.T, string) string, label string) []string {
	seen := map[string]bool{}
	var out []string
	for len(out) < n {
		s := gen(t, label)
		for seen[s] {
			s += "x"
		}
		seen[s] = true
		out = append(out, s)
	}
	return out
}

// GenOpts steers GenTy.
type GenOpts struct {
	Aliases  []string // names that may be referenced (nil: any member-like name)
	MaxDepth int
	MaxField int
}

// GenTy generates a type; top = true forces a struct (method parameters etc.).
func GenTy(t *rapid.T, o GenOpts, depth int, top bool) *Ty {
	if top {
		return genList(t, o, depth, false)
	}
	max := 10
	if depth >= o.MaxDepth {
		max = 5
	}
	switch k := rapid.IntRange(0, max).Draw(t, "tk"); k {
	case 0, 1, 2, 3, 4:
		return tyBuiltin(builtinKinds[k])
	case 5:
		if o.Aliases != nil {
			if len(o.Aliases) == 0 {
				return tyBuiltin("string")
			}
			return &Ty{K: "alias", Alias: rapid.SampledFrom(o.Aliases).Draw(t, "alias")}
		}
		return &Ty{K: "alias", Alias: genMemberName(t, "alias")}
	case 6:
		e := GenTy(t, o, depth+1, false)
		if e.K == "maybe" {
			return e
		}
		return &Ty{K: "maybe", Elem: e}
	case 7:
		return &Ty{K: "array", Elem: GenTy(t, o, depth+1, false)}
	case 8:
		return &Ty{K: "map", Elem: GenTy(t, o, depth+1, false)}
	case 9:
		return genList(t, o, depth+1, false)
	default:
		return genList(t, o, depth+1, true)
	}
}

func genList(t *rapid.T, o GenOpts, depth int, enum bool) *Ty {
	if enum {
		n := rapid.IntRange(1, 4).Draw(t, "nenum")
		names := distinctNames(t, n, genFieldName, "ename")
		out := &Ty{K: "enum"}
		for _, nm := range names {
			out.Fields = append(out.Fields, Field{Name: nm})
		}
		return out
	}
	maxf := o.MaxField
	if depth >= o.MaxDepth {
		maxf = 1
	}
	n := rapid.IntRange(0, maxf).Draw(t, "nfields")
	names := distinctNames(t, n, genFieldName, "fname")
	out := &Ty{K: "struct"}
	for _, nm := range names {
		out.Fields = append(out.Fields, Field{Name: nm, T: GenTy(t, o, depth+1, false)})
	}
	return out
}

func genDocLines(t *rapid.T) []string {
	n := rapid.IntRange(1, 3).Draw(t, "ndoc")
	var out []string
	for k := 0; k < n; k++ {
		// first line always has text (two bare "#" lines are indistinguishable from one)
		if k > 0 && rapid.IntRange(0, 3).Draw(t, "bare") == 0 {
			out = append(out, "")
			continue
		}
		s := rapid.StringMatching("[A-Za-z0-9`#(),:?\\[\\]>.'\"\\\\é-][A-Za-z0-9 `#(),:?\\[\\]>.'\"\\\\é\t-]{0,20}[A-Za-z0-9`#().é]").Draw(t, "docline")
		out = append(out, s)
	}
	return out
}

func genDocMode(t *rapid.T, label string) string {
	switch rapid.IntRange(0, 5).Draw(t, label) {
	case 0, 1:
		return "block"
	case 2:
		return "free"
	case 3:
		return "blocktail" // a doc block directly under a line that ends in a trailing remark
	default:
		return "none"
	}
}

// GenIface generates a random description tree within the grammar (references need not
// resolve: the parser does not resolve them).
func GenIface(t *rapid.T, maxMembers int) *Iface {
	i := &Iface{Name: genInterfaceName(t)}
	i.DocMode = genDocMode(t, "idocmode")
	if i.DocMode == "block" || i.DocMode == "blocktail" {
		i.Doc = genDocLines(t)
	}
	n := rapid.IntRange(1, maxMembers).Draw(t, "nmembers")
	names := distinctNames(t, n, genMemberName, "mname")
	o := GenOpts{MaxDepth: rapid.IntRange(1, 6).Draw(t, "maxdepth"), MaxField: rapid.IntRange(1, 5).Draw(t, "maxfield")}
	methodAt := rapid.IntRange(0, n-1).Draw(t, "methodAt")
	for k := 0; k < n; k++ {
		m := Member{Name: names[k]}
		kind := rapid.IntRange(0, 3).Draw(t, "mkind")
		if k == methodAt {
			kind = 0
		}
		switch kind {
		case 0, 1:
			m.Kind = "method"
			m.In = GenTy(t, o, 0, true)
			m.Out = GenTy(t, o, 0, true)
		case 2:
			m.Kind = "type"
			if rapid.IntRange(0, 4).Draw(t, "aliasenum") == 0 {
				m.T = genList(t, o, 0, true)
			} else {
				m.T = GenTy(t, o, 0, true)
			}
		default:
			m.Kind = "error"
			if rapid.IntRange(0, 3).Draw(t, "typeless") != 0 {
				m.T = GenTy(t, o, 0, true)
			}
		}
		m.DocMode = genDocMode(t, "docmode")
		if m.DocMode == "block" || m.DocMode == "blocktail" {
			m.Doc = genDocLines(t)
		}
		i.Members = append(i.Members, m)
	}
	return i
}

// RapidLayout draws every gap from rapid.
type RapidLayout struct {
	T   *rapid.T
	EOL string // "\n" or "\r\n" for doc blocks
}

var wsPieces = []string{" ", "  ", "\t", "\r", "\n", "\r\n", " \n", "\n\n"}

func (l RapidLayout) comment() string {
	switch rapid.IntRange(0, 5).Draw(l.T, "cmtkind") {
	case 0:
		return "#\n" // empty comment
	case 1:
		return "#" + rapid.StringMatching(`[a-z(),:?\[\]>-]{1,8}`).Draw(l.T, "cmt") + "\n" // no space
	case 2:
		return "# " + rapid.StringMatching("[A-Za-z0-9 #`(),:?>é\\[\\]\t-]{0,20}").Draw(l.T, "cmt") + "\r\n"
	default:
		return "# " + rapid.StringMatching("[A-Za-z0-9 #`(),:?>é\\[\\]\t-]{0,20}").Draw(l.T, "cmt") + "\n"
	}
}

// ws draws whitespace; nl: newlines allowed; cmt: comments allowed.
func (l RapidLayout) ws(min int, nl, cmt bool) string {
	n := rapid.IntRange(min, 3).Draw(l.T, "nws")
	if min == 0 && rapid.IntRange(0, 2).Draw(l.T, "wsEmpty") == 0 {
		n = 0
	}
	var b strings.Builder
	for k := 0; k < n; k++ {
		if cmt && rapid.IntRange(0, 4).Draw(l.T, "isCmt") == 0 {
			b.WriteString(l.comment())
			continue
		}
		p := rapid.SampledFrom(wsPieces).Draw(l.T, "ws")
		if !nl {
			p = strings.NewReplacer("\n", " ", "\r", "\t").Replace(p)
		}
		b.WriteString(p)
	}
	return b.String()
}

// Gap implements Layouter.
func (l RapidLayout) Gap(class, mode string, doc []string) string {
	switch class {
	case GapOpt:
		return l.ws(0, true, true)
	case GapMand:
		return l.ws(1, true, true)
	case GapSameLine:
		return l.ws(0, false, false)
	case GapKwName:
		switch mode {
		case "block", "blocktail":
			return l.ws(1, false, false)
		case "free":
			return l.ws(1, true, true)
		default:
			return l.ws(1, true, false)
		}
	case GapSep, GapLead:
		var b strings.Builder
		switch mode {
		case "none":
			if class == GapSep {
				b.WriteString(l.ws(0, false, false) + "\n")
			}
			b.WriteString(l.ws(0, true, false))
		case "blocktail":
			if class == GapSep {
				// the previous declaration's line ends in a remark; the block follows with no blank line in between
				b.WriteString(l.ws(0, false, false))
				b.WriteString("# a remark on the line above" + l.EOL)
			}
			b.WriteString(docBlockIndented(doc, l.EOL, ""))
			b.WriteString(l.ws(0, false, false))
		case "block":
			if class == GapSep || rapid.Bool().Draw(l.T, "leadHasPrefix") {
				// anything, ending in a blank line so earlier comments cannot merge with the block
				b.WriteString(l.ws(0, true, true))
				b.WriteString("\n\n")
			}
			ind := ""
			b.WriteString(docBlockIndented(doc, l.EOL, ind))
			b.WriteString(l.ws(0, false, false)) // indentation of the keyword line
		default: // free
			if class == GapSep {
				b.WriteString(l.ws(0, false, false))
				if rapid.Bool().Draw(l.T, "trailingCmt") {
					b.WriteString(l.comment())
				} else {
					b.WriteString("\n")
				}
			}
			b.WriteString(l.ws(0, true, true))
		}
		return b.String()
	case GapEnd:
		switch rapid.IntRange(0, 4).Draw(l.T, "endkind") {
		case 0:
			return ""
		case 1:
			return "\n"
		case 2:
			return l.ws(0, true, true)
		case 3:
			return "\n# final comment, no newline"
		default:
			return "\n#"
		}
	}
	return " "
}

func docBlockIndented(doc []string, eol, ind string) string {
	var b strings.Builder
	for _, l := range doc {
		b.WriteString(ind)
		if l == "" {
			b.WriteString("#" + eol)
		} else {
			b.WriteString("# " + l + eol)
		}
	}
	return b.String()
}
