package props

// Adapters around the real code: a controllable listener, a scripted dispatcher
// whose behaviour is carried in each call's parameters, a service harness and a
// raw client.

import (
	"context"
	"encoding/json"
	"errors"
	"fmt"
	"io"
	"math"
	"net"
	"os"
	"runtime"
	"strings"
	"sync"
	"sync/atomic"
	"time"

	"github.com/varlink/go/varlink"
)

// ---------------------------------------------------------------------------
// FakeListener: Accept blocks until the harness hands it something.

type acceptItem struct {
	conn net.Conn
	err  error
}

// FakeListener is a net.Listener whose every step is ordered by the harness.
type FakeListener struct {
	ch         chan acceptItem
	closed     chan struct{}
	closeOnce  sync.Once
	mu         sync.Mutex
	Events     []string    // "deadline", "accept-enter", "accept-conn", "accept-timeout", "accept-closed", "close"
	Deadlines  []time.Time // every SetDeadline value
	DeadlineAt []time.Time // when each of them was set
	AcceptRet  []time.Time // time each Accept returned
	acceptsIn  int32       // Accept calls currently blocked
	AcceptN    int32       // Accept calls started
	CloseN     int32
	// AfterCloseHand: if non-nil, the pending Accept returns this connection while Close is in
	// progress ("accept won the race").
	raceConn net.Conn
}

// NewFakeListener creates a listener.
func NewFakeListener() *FakeListener {
	return &FakeListener{ch: make(chan acceptItem, 64), closed: make(chan struct{})}
}

type timeoutErr struct{}

func (timeoutErr) Error() string   { return "i/o timeout (injected)" }
func (timeoutErr) Timeout() bool   { return true }
func (timeoutErr) Temporary() bool { return true }

func (l *FakeListener) ev(s string) {
	l.mu.Lock()
	l.Events = append(l.Events, s)
	l.mu.Unlock()
}

// Accept implements net.Listener.
func (l *FakeListener) Accept() (net.Conn, error) {
	atomic.AddInt32(&l.AcceptN, 1)
	atomic.AddInt32(&l.acceptsIn, 1)
	l.ev("accept-enter")
	defer func() {
		atomic.AddInt32(&l.acceptsIn, -1)
		l.mu.Lock()
		l.AcceptRet = append(l.AcceptRet, time.Now())
		l.mu.Unlock()
	}()
	// queued items are delivered before the closed state is observed, like a kernel
	// backlog would not be: once closed, nothing more is handed out, except raceConn.
	select {
	case <-l.closed:
		l.mu.Lock()
		rc := l.raceConn
		l.raceConn = nil
		l.mu.Unlock()
		if rc != nil {
			l.ev("accept-conn(race)")
			return rc, nil
		}
		l.ev("accept-closed")
		return nil, &net.OpError{Op: "accept", Net: "fake", Err: net.ErrClosed}
	default:
	}
	select {
	case it := <-l.ch:
		if it.err != nil {
			l.ev("accept-timeout")
			return nil, &net.OpError{Op: "accept", Net: "fake", Err: it.err}
		}
		l.ev("accept-conn")
		return it.conn, nil
	case <-l.closed:
		l.mu.Lock()
		rc := l.raceConn
		l.raceConn = nil
		l.mu.Unlock()
		if rc != nil {
			l.ev("accept-conn(race)")
			return rc, nil
		}
		l.ev("accept-closed")
		return nil, &net.OpError{Op: "accept", Net: "fake", Err: net.ErrClosed}
	}
}

// Close implements net.Listener.
func (l *FakeListener) Close() error {
	atomic.AddInt32(&l.CloseN, 1)
	l.ev("close")
	l.closeOnce.Do(func() { close(l.closed) })
	return nil
}

// Addr implements net.Listener.
func (l *FakeListener) Addr() net.Addr { return fakeAddr{} }

type fakeAddr struct{}

func (fakeAddr) Network() string { return "fake" }
func (fakeAddr) String() string  { return "fake" }

// SetDeadline records the re-arming of the accept deadline.
func (l *FakeListener) SetDeadline(t time.Time) error {
	l.mu.Lock()
	l.Events = append(l.Events, "deadline")
	l.Deadlines = append(l.Deadlines, t)
	l.DeadlineAt = append(l.DeadlineAt, time.Now())
	l.mu.Unlock()
	return nil
}

// Connect queues a new connection for Accept and returns the client end.
func (l *FakeListener) Connect() net.Conn {
	c, s := net.Pipe()
	l.ch <- acceptItem{conn: sockLikePipe{s}}
	return c
}

// sockLikePipe makes the service end of a net.Pipe behave like a socket in one respect: arming a
// deadline after the peer has closed is not an error (net.Pipe returns io.ErrClosedPipe there, a
// kernel socket does not). Without it the library's "set deadline, then read" sequence would
// drop complete frames that are already buffered when the peer closes - an artefact of the
// in-memory transport, not behaviour of the library on any real transport.
type sockLikePipe struct{ net.Conn }

func (p sockLikePipe) SetDeadline(t time.Time) error {
	if err := p.Conn.SetDeadline(t); err != nil && err != io.ErrClosedPipe {
		return err
	}
	return nil
}

func (p sockLikePipe) SetReadDeadline(t time.Time) error {
	if err := p.Conn.SetReadDeadline(t); err != nil && err != io.ErrClosedPipe {
		return err
	}
	return nil
}

func (p sockLikePipe) SetWriteDeadline(t time.Time) error {
	if err := p.Conn.SetWriteDeadline(t); err != nil && err != io.ErrClosedPipe {
		return err
	}
	return nil
}

// tempErr is a transient accept failure (what EMFILE looks like): a net.Error that is temporary but not a timeout.
type tempErr struct{}

func (tempErr) Error() string   { return "accept: too many open files (injected)" }
func (tempErr) Timeout() bool   { return false }
func (tempErr) Temporary() bool { return true }

// InjectTempError makes the next Accept fail with a temporary error that is not a timeout.
func (l *FakeListener) InjectTempError() { l.ch <- acceptItem{err: tempErr{}} }

// InjectTimeout makes the next Accept return a timeout error.
func (l *FakeListener) InjectTimeout() { l.ch <- acceptItem{err: timeoutErr{}} }

// SetRaceConn arranges that the Accept pending at Close time returns conn.
func (l *FakeListener) SetRaceConn(c net.Conn) {
	l.mu.Lock()
	l.raceConn = c
	l.mu.Unlock()
}

// Pending returns the number of queued items Accept has not consumed yet.
func (l *FakeListener) Pending() int { return len(l.ch) }

// Blocked reports whether an Accept call is currently waiting.
func (l *FakeListener) Blocked() bool { return atomic.LoadInt32(&l.acceptsIn) > 0 }

// Snapshot returns a copy of the event list.
func (l *FakeListener) Snapshot() []string {
	l.mu.Lock()
	defer l.mu.Unlock()
	return append([]string(nil), l.Events...)
}

// IsClosed reports whether Close was called.
func (l *FakeListener) IsClosed() bool {
	select {
	case <-l.closed:
		return true
	default:
		return false
	}
}

// ---------------------------------------------------------------------------
// scripted dispatcher

// Op is one action of a handler script.
type Op struct {
	Op        string          `json:"op"`                  // reply error ifnotfound methodnotfound notimpl invalidparam yield sleep fail read readbytes write
	Continues bool            `json:"continues,omitempty"` // reply: set Call.Continues
	P         json.RawMessage `json:"p,omitempty"`         // reply/error parameters (absent = nil)
	Name      string          `json:"name,omitempty"`      // error name
	S         string          `json:"s,omitempty"`         // argument of the built-in error helpers
	Ret       bool            `json:"ret,omitempty"`       // return this op's result from the handler immediately
	// Go: hand the library a typed Go value whose JSON encoding is P instead of the raw JSON: "struct" struct{}{} |
	// "ptr" &struct{}{} | "named" a named empty struct | "map" an empty map (all four need P = {}) | "typed" a pointer to a
	// struct with tagged fields (needs P = {"a":7,"s":"x","o":null})
	Go   string `json:"go,omitempty"`
	N    int    `json:"n,omitempty"`    // read size / sleep ms
	Data []byte `json:"data,omitempty"` // write payload
}

type scriptNamedEmpty struct{}

type scriptTyped struct {
	A int     `json:"a"`
	S string  `json:"s"`
	O *string `json:"o"`
}

// GoValueJSON is the JSON that the typed Go value of the given kind encodes to.
func GoValueJSON(kind string) json.RawMessage {
	if kind == "typed" {
		return json.RawMessage(`{"a":7,"s":"x","o":null}`)
	}
	return json.RawMessage(`{}`)
}

// ScriptParams is what the scripted dispatcher expects as call parameters.
type ScriptParams struct {
	Conn   int             `json:"conn"`
	ID     int             `json:"id"`
	Script []Op            `json:"script"`
	Pad    json.RawMessage `json:"pad,omitempty"` // arbitrary payload (round-trip tests)
}

// OpResult is the outcome of one script action.
type OpResult struct {
	Err  string `json:"err,omitempty"`
	Data []byte `json:"data,omitempty"`
}

// Invocation is one logged handler invocation.
type Invocation struct {
	ConnKey   string
	connRef   varlink.ReadWriterContext // keeps the connection object alive so that ConnKey (its address) stays unique
	Iface     string
	Method    string
	More      bool
	Oneway    bool
	Upgrade   bool
	Params    []byte // bytes obtained through Call.GetParameters(&json.RawMessage)
	ParamErr  string
	Request   []byte // copy of *Call.Request
	Conn, ID  int
	HasScript bool
	Results   []OpResult
	Enter     int64
	Exit      int64
	RetErr    bool
}

// InvLog is the shared invocation log of a service harness.
type InvLog struct {
	mu  sync.Mutex
	seq int64
	inv []*Invocation
}

func (l *InvLog) next() int64 { return atomic.AddInt64(&l.seq, 1) }

// All returns a snapshot.
func (l *InvLog) All() []Invocation {
	l.mu.Lock()
	defer l.mu.Unlock()
	out := make([]Invocation, len(l.inv))
	for i, v := range l.inv {
		out[i] = *v
		out[i].Results = append([]OpResult(nil), v.Results...)
	}
	return out
}

// Len returns the number of invocations so far.
func (l *InvLog) Len() int {
	l.mu.Lock()
	defer l.mu.Unlock()
	return len(l.inv)
}

// ScriptIface is a dispatcher registered under an arbitrary interface name.
type ScriptIface struct {
	Name string
	Desc string
	Log  *InvLog
	// AllowIO enables the sleep/read/readbytes/write actions (only the upgrade/cancellation properties use them;
	// elsewhere a fuzzer-made script must not be able to stall the handler or eat the client's bytes).
	AllowIO bool
	// Hook, if set, is called for ops the generic interpreter does not know.
	Hook func(ctx context.Context, c *varlink.Call, op Op) (OpResult, error)
	// descLater, once set, is what the description getter returns from then on (an application that edits its
	// text after registration; the service must keep reporting the text it was given at registration).
	descLater atomic.Pointer[string]
}

// EditDescription makes the getter return another text from now on.
func (s *ScriptIface) EditDescription(text string) { s.descLater.Store(&text) }

// ErrHandlerFail is what a script's "fail" action returns.
var ErrHandlerFail = errors.New("scripted handler failure")

// failError: whatever error value a handler returns, the connection must end. op.S selects the kind.
func failError(kind string) error {
	switch kind {
	case "deadline":
		return context.DeadlineExceeded
	case "canceled":
		return context.Canceled
	case "eof":
		return io.EOF
	case "unexpected-eof":
		return io.ErrUnexpectedEOF
	case "net-timeout":
		return &net.OpError{Op: "read", Net: "unix", Err: timeoutErr{}}
	case "os-deadline":
		return os.ErrDeadlineExceeded
	case "closed":
		return net.ErrClosed
	case "wrapped":
		return fmt.Errorf("handler: %w", context.DeadlineExceeded)
	}
	return ErrHandlerFail
}

var failKinds = []string{"", "", "deadline", "canceled", "eof", "unexpected-eof", "net-timeout", "os-deadline", "closed", "wrapped"}

func errStr(err error) string {
	if err == nil {
		return ""
	}
	return err.Error()
}

// VarlinkDispatch implements the varlink dispatcher interface.
func (s *ScriptIface) VarlinkDispatch(ctx context.Context, c varlink.Call, methodname string) error {
	inv := &Invocation{ConnKey: fmt.Sprintf("%p", c.Conn), connRef: c.Conn, Iface: s.Name, Method: methodname,
		More: c.WantsMore(), Oneway: c.IsOneway(), Upgrade: c.WantsUpgrade(), Enter: s.Log.next(), Conn: -1, ID: -1}
	if c.Request != nil {
		inv.Request = append([]byte(nil), (*c.Request)...)
	}
	var raw json.RawMessage
	if err := c.GetParameters(&raw); err != nil {
		inv.ParamErr = err.Error()
	} else {
		inv.Params = append([]byte(nil), raw...)
	}
	var sp ScriptParams
	if inv.ParamErr == "" && json.Unmarshal(raw, &sp) == nil && raw != nil && string(raw) != "null" {
		inv.HasScript = true
		inv.Conn, inv.ID = sp.Conn, sp.ID
	} else {
		sp = ScriptParams{} // (a failed Unmarshal may have filled the script partially; the model treats it as "no script")
	}
	s.Log.mu.Lock()
	s.Log.inv = append(s.Log.inv, inv)
	s.Log.mu.Unlock()
	record := func(r OpResult) {
		s.Log.mu.Lock()
		inv.Results = append(inv.Results, r)
		s.Log.mu.Unlock()
	}
	finish := func(err error) error {
		s.Log.mu.Lock()
		inv.RetErr = err != nil
		inv.Exit = s.Log.next()
		s.Log.mu.Unlock()
		return err
	}
	for _, op := range sp.Script {
		var err error
		var res OpResult
		var params interface{}
		if op.P != nil {
			params = op.P
		}
		switch op.Go {
		case "struct":
			params = struct{}{}
		case "ptr":
			params = &struct{}{}
		case "named":
			params = scriptNamedEmpty{}
		case "map":
			params = map[string]interface{}{}
		case "typed":
			params = &scriptTyped{A: 7, S: "x"}
		case "nan":
			// a value that has no JSON encoding: the reply attempt must be refused (reported to the handler) with nothing written
			params = map[string]interface{}{"x": math.NaN()}
		case "badraw-nul":
			params = json.RawMessage("{\"a\":\"x\x00y\"}")
		case "badraw-trunc":
			params = json.RawMessage(`{"a":[1,2`)
		case "badraw-tail":
			params = json.RawMessage(`{"a":1},"error":"x.y.Forged","continues":true,"z":{"b":2}`)
		case "badrawptr-nul":
			r := json.RawMessage("{\"a\":1}\x00{\"b\":2}")
			params = &r
		case "badrawptr-tail":
			r := json.RawMessage(`{} {}`)
			params = &r
		case "badchan":
			params = map[string]interface{}{"c": make(chan int)}
		case "badmarshaler-err":
			params = scriptBadMarshaler{fail: true}
		case "badmarshaler-bytes":
			params = map[string]interface{}{"m": scriptBadMarshaler{}}
		}
		switch op.Op {
		case "reply":
			c.Continues = op.Continues
			err = c.Reply(ctx, params)
		case "error":
			err = c.ReplyError(ctx, op.Name, params)
		case "ifnotfound":
			err = c.ReplyInterfaceNotFound(ctx, op.S)
		case "methodnotfound":
			err = c.ReplyMethodNotFound(ctx, op.S)
		case "notimpl":
			err = c.ReplyMethodNotImplemented(ctx, op.S)
		case "invalidparam":
			err = c.ReplyInvalidParameter(ctx, op.S)
		case "yield":
			runtime.Gosched()
		case "sleep", "read", "readbytes", "write", "readall":
			if !s.AllowIO {
				break
			}
			res, err = s.doIO(ctx, &c, op)
		case "fail":
			record(OpResult{Err: "fail"})
			return finish(failError(op.S))
		default:
			if s.Hook != nil {
				res, err = s.Hook(ctx, &c, op)
			}
		}
		res.Err = errStr(err)
		record(res)
		if op.Ret && !Unencodable(op.Go) { // (what a oneway call reports for unencodable parameters is not fixed: never return on it)
			return finish(err)
		}
	}
	return finish(nil)
}

func (s *ScriptIface) doIO(ctx context.Context, c *varlink.Call, op Op) (res OpResult, err error) {
	switch op.Op {
	case "sleep":
		time.Sleep(time.Duration(op.N) * time.Millisecond)
	case "read":
		buf := make([]byte, op.N)
		var n int
		n, err = c.Conn.Read(ctx, buf)
		res.Data = buf[:n]
	case "readbytes":
		var b []byte
		b, err = c.Conn.ReadBytes(ctx, 0)
		res.Data = b
	case "write":
		_, err = c.Conn.Write(ctx, op.Data)
	case "readall":
		buf := make([]byte, 4096)
		for {
			n, rerr := c.Conn.Read(ctx, buf)
			res.Data = append(res.Data, buf[:n]...)
			if rerr != nil {
				break // EOF ends the drain; it is not the handler's failure
			}
			if n == 0 {
				err = fmt.Errorf("Read returned 0 bytes and no error")
				break
			}
		}
	}
	return res, err
}

// VarlinkGetName implements the dispatcher interface.
func (s *ScriptIface) VarlinkGetName() string { return s.Name }

// VarlinkGetDescription implements the dispatcher interface.
func (s *ScriptIface) VarlinkGetDescription() string {
	if p := s.descLater.Load(); p != nil {
		return *p
	}
	return s.Desc
}

// ---------------------------------------------------------------------------
// service harness on the fake listener

// Svc is a real varlink.Service served by DoListen on a FakeListener.
type Svc struct {
	S      *varlink.Service
	L      *FakeListener
	Log    *InvLog
	Ifaces []string
	Ident  [4]string
	done   chan error
	cancel context.CancelFunc
}

// StartSvc creates a service with scripted interfaces and starts DoListen(timeout).
func StartSvc(ifaces []string, timeout time.Duration) (*Svc, error) {
	ident := [4]string{"verif-vendor", "verif-product", "1.0", "http://verif.example"}
	s, err := varlink.NewService(ident[0], ident[1], ident[2], ident[3])
	if err != nil {
		return nil, err
	}
	sv := &Svc{S: s, L: NewFakeListener(), Log: &InvLog{}, Ifaces: ifaces, Ident: ident, done: make(chan error, 1)}
	for _, n := range ifaces {
		if err := s.RegisterInterface(&ScriptIface{Name: n, Desc: "interface " + n + "\nmethod X() -> ()\n", Log: sv.Log}); err != nil {
			return nil, fmt.Errorf("RegisterInterface(%q): %v", n, err)
		}
	}
	s.VerifSetListener(sv.L)
	ctx, cancel := context.WithCancel(context.Background())
	sv.cancel = cancel
	go func() { sv.done <- s.DoListen(ctx, timeout) }()
	return sv, nil
}

// Stop shuts the service down and waits for DoListen to return (bounded).
func (sv *Svc) Stop(bound time.Duration) (error, bool) {
	sv.S.Shutdown()
	select {
	case err := <-sv.done:
		sv.cancel()
		return err, true
	case <-time.After(bound):
		sv.cancel()
		return nil, false
	}
}

// WaitActive waits until the active-connection accessor equals n.
func (sv *Svc) WaitActive(n int64, bound time.Duration) bool {
	dl := time.Now().Add(bound)
	for {
		if activeConns(sv.S) == n {
			return true
		}
		if time.Now().After(dl) {
			return false
		}
		time.Sleep(200 * time.Microsecond)
	}
}

// ---------------------------------------------------------------------------
// raw client

// RawExchange writes the segments to conn (one Write per segment) while reading
// everything the peer sends until EOF or until the bound passes. If closeAfterWrite is
// set the write side is closed after the last segment (the pipe has no half-close, so
// instead the reader continues until the peer closes or `settle` elapses without data).
// It returns the bytes read and whether EOF was seen.
func RawExchange(conn net.Conn, segments [][]byte, bound time.Duration, settle time.Duration) (got []byte, eof bool, werr error) {
	var wg sync.WaitGroup
	wg.Add(1)
	wdone := make(chan struct{})
	go func() {
		defer wg.Done()
		defer close(wdone)
		for _, s := range segments {
			if len(s) == 0 {
				continue
			}
			conn.SetWriteDeadline(time.Now().Add(bound))
			if _, err := conn.Write(s); err != nil {
				werr = err
				return
			}
		}
	}()
	buf := make([]byte, 65536)
	deadline := time.Now().Add(bound)
	written := false
	for {
		// before the writer is done: long reads; afterwards: wait `settle` for more data
		select {
		case <-wdone:
			written = true
		default:
		}
		if written {
			conn.SetReadDeadline(time.Now().Add(settle))
		} else {
			conn.SetReadDeadline(time.Now().Add(20 * time.Millisecond))
		}
		n, err := conn.Read(buf)
		got = append(got, buf[:n]...)
		if err != nil {
			if err == io.EOF || errors.Is(err, io.ErrClosedPipe) {
				eof = true
				break
			}
			var ne net.Error
			if errors.As(err, &ne) && ne.Timeout() {
				if written && n == 0 {
					break
				}
				if time.Now().After(deadline) {
					break
				}
				continue
			}
			eof = true // connection reset etc.
			break
		}
	}
	wg.Wait()
	return got, eof, werr
}

var (
	stackMu  sync.Mutex
	stackBuf []byte
)

// LibGoroutines returns "" when no goroutine has a github.com/varlink/go/varlink frame on its
// stack (waiting up to bound for stragglers to finish), else the offending stacks.
func LibGoroutines(bound time.Duration) string {
	dl := time.Now().Add(bound)
	stackMu.Lock()
	defer stackMu.Unlock()
	if stackBuf == nil {
		stackBuf = make([]byte, 1<<20)
	}
	buf := stackBuf
	for {
		n := runtime.Stack(buf, true)
		var bad []string
		for _, g := range strings.Split(string(buf[:n]), "\n\n") {
			if strings.Contains(g, "github.com/varlink/go/varlink") && !strings.Contains(g, "LibGoroutines") {
				bad = append(bad, g)
			}
		}
		if len(bad) == 0 {
			return ""
		}
		if time.Now().After(dl) {
			if len(bad) > 4 {
				bad = bad[:4]
			}
			return strings.Join(bad, "\n\n")
		}
		time.Sleep(200 * time.Microsecond)
	}
}

// SplitFrames splits a byte stream at NUL; rest is the unterminated tail.
func SplitFrames(b []byte) (frames [][]byte, rest []byte) {
	for {
		i := indexByte(b, 0)
		if i < 0 {
			return frames, b
		}
		frames = append(frames, b[:i])
		b = b[i+1:]
	}
}

func indexByte(b []byte, c byte) int {
	for i, x := range b {
		if x == c {
			return i
		}
	}
	return -1
}

// activeConns reads the service's count of open connections through the overlay accessor. When a change to the
// library has moved the accounting somewhere the accessor cannot find, the run is inconclusive (HARNESS), not a finding.
func activeConns(s *varlink.Service) int64 {
	n := s.VerifActiveConnections()
	if n < 0 {
		panic("HARNESS: the service's connection accounting could not be located by the white-box accessor (field renamed?)")
	}
	return n
}

// scriptBadMarshaler is a json.Marshaler that fails, or returns bytes that are not a JSON value.
type scriptBadMarshaler struct{ fail bool }

func (m scriptBadMarshaler) MarshalJSON() ([]byte, error) {
	if m.fail {
		return nil, errors.New("this value has no JSON encoding")
	}
	return []byte("{\"a\":\"x\x00\"}\x00"), nil
}
