package props

// C19 Address strings are handled totally and consistently.

import (
	"context"
	"fmt"
	"net"
	"os"
	"path/filepath"
	"strings"
	"sync/atomic"
	"testing"
	"time"
	"unicode/utf8"

	"github.com/varlink/go/varlink"
	"pgregory.net/rapid"
)

// C19Case: an address template ({DIR} = per-case directory, {U} = unique token, {PORT} = a free TCP port),
// the operation and the state the service is in beforehand.
type C19Case struct {
	Addr string `json:"addr"`
	Op   string `json:"op"`  // bind | listen | connect
	Pre  string `json:"pre"` // fresh | failed-bind | bound | served | stale-socket
}

var c19Protocols = []string{"unix", "unix", "unix", "tcp", "tcp", "UNIX", "Unix", "udp", "unixgram", "http", "", " unix", "unix ", "tcp4", "ip"}
var c19UnixPaths = []string{"", "@{U}", "@{U}", "@", "rel-{U}", "./rel-{U}", "{DIR}/abs-{U}", "{DIR}/abs-{U}", "{DIR}/sub/none-{U}", "{DIR}/" + "long-long-long-long-long-long-long-long-long-long-long-long-long-long-long-long-long-long-long-long-long-long-long-{U}",
	"@long-long-long-long-long-long-long-long-long-long-long-long-long-long-long-long-long-long-long-long-long-long-long-long-{U}", "{DIR}/a b-{U}", "{DIR}/a:b-{U}", "{DIR}/é-{U}", "{DIR}", "/", ".", "@@{U}", "{DIR}/@{U}",
	// spellings that a path normaliser would rewrite: abstract names are opaque bytes, and a filesystem path must mean the same to both sides
	"@{U}//x", "@{U}/./x", "@{U}/", "@a-{U}/../b", "@./{U}", "{DIR}/abs-{U}/", "{DIR}/none-{U}/../abs-{U}", "{DIR}//abs-{U}", "{DIR}/./abs-{U}", "./sub/../rel-{U}"}
var c19TCPHosts = []string{"127.0.0.1:{PORT}", "127.0.0.1:{PORT}", "127.0.0.1:0", "localhost:{PORT}", "[::1]:{PORT}", ":{PORT}", "127.0.0.1", "", "256.1.1.1:80", "127.0.0.1:99999", "host.invalid:{PORT}", "127.0.0.1:http", "127.0.0.1:{PORT}:extra", ":"}
var c19Tails = []string{"", "", "", ";", ";mode=0600", ";a;b", ";x:y", ";{DIR}/other-{U}", ";;", "; "}

func genAddr(t *rapid.T) string {
	switch rapid.IntRange(0, 11).Draw(t, "akind") {
	case 0: // no protocol separator at all
		return rapid.SampledFrom([]string{"foo", "", "unix", "tcp", "unix;x", "@{U}", "{DIR}/abs-{U}", "/run/x", "127.0.0.1", ";", "unix/{DIR}/x"}).Draw(t, "nocolon")
	case 1: // random soup
		alphabet := []rune{':', ';', '@', '/', '.', 'u', 'n', 'i', 'x', 't', 'c', 'p', '0', '1', ' ', 'é', 0}
		n := rapid.IntRange(0, 12).Draw(t, "slen")
		var sb strings.Builder
		for i := 0; i < n; i++ {
			sb.WriteRune(rapid.SampledFrom(alphabet).Draw(t, "sr"))
		}
		if utf8.ValidString(sb.String()) {
			return sb.String()
		}
		return "x"
	default:
		proto := rapid.SampledFrom(c19Protocols).Draw(t, "proto")
		var rest string
		if strings.Contains(strings.ToLower(proto), "tcp") || (proto != "unix" && rapid.IntRange(0, 3).Draw(t, "tcpish") == 0) {
			rest = rapid.SampledFrom(c19TCPHosts).Draw(t, "host")
		} else {
			rest = rapid.SampledFrom(c19UnixPaths).Draw(t, "path")
		}
		return proto + ":" + rest + rapid.SampledFrom(c19Tails).Draw(t, "tail")
	}
}

func genC19(t *rapid.T) C19Case {
	return C19Case{
		Addr: genAddr(t),
		Op:   rapid.SampledFrom([]string{"bind", "bind", "listen", "connect"}).Draw(t, "op"),
		Pre:  rapid.SampledFrom([]string{"fresh", "fresh", "failed-bind", "bound", "bound-same", "served", "stale-socket", "draining"}).Draw(t, "pre"),
	}
}

// addrModel classifies a concrete address string.
type addrModel struct {
	class    string // refuse | strict | lenient
	proto    string
	target   string // part before the first ';'
	fsPath   string // filesystem socket path ("" if none)
	abstract bool
}

func modelAddress(s string) addrModel {
	i := strings.Index(s, ":")
	if i < 0 {
		return addrModel{class: "refuse"}
	}
	m := addrModel{proto: s[:i]}
	rest := s[i+1:]
	if j := strings.Index(rest, ";"); j >= 0 {
		rest = rest[:j]
	}
	m.target = rest
	switch m.proto {
	case "unix":
		if rest == "" {
			m.class = "refuse"
			return m
		}
		if rest[0] == '@' {
			m.abstract = true
			if len(rest) > 1 && len(rest) < 100 {
				m.class = "strict"
			} else {
				m.class = "lenient"
			}
			return m
		}
		m.fsPath = rest
		if len(rest) < 100 && !strings.ContainsRune(rest, 0) {
			m.class = "strict" // (still only "if Bind succeeds ...")
		} else {
			m.class = "lenient"
		}
		return m
	case "tcp":
		host, port, err := net.SplitHostPort(rest)
		if err == nil && host == "127.0.0.1" && port != "0" && port != "" {
			m.class = "strict"
		} else {
			m.class = "lenient"
		}
		return m
	}
	m.class = "refuse"
	return m
}

var c19Counter int64

func freePort() int {
	l, err := net.Listen("tcp", "127.0.0.1:0")
	if err != nil {
		return 1
	}
	defer l.Close()
	return l.Addr().(*net.TCPAddr).Port
}

func isSocket(p string) bool {
	fi, err := os.Lstat(p)
	return err == nil && fi.Mode()&os.ModeSocket != 0
}

// c19Serve: the listener is installed; serve, do a GetInfo round trip with addr, shut down, wait. Returns a violation or "".
func c19RoundTrip(svc *varlink.Service, token, addr string, m addrModel, viaListen bool, done chan error, bound time.Duration) (reached bool, msg string) {
	ctx, cancel := context.WithTimeout(context.Background(), bound)
	defer cancel()
	var conn *varlink.Connection
	var err error
	for i := 0; i < 200; i++ {
		dctx, dcancel := context.WithTimeout(ctx, 2*time.Second)
		conn, err = varlink.NewConnection(dctx, addr)
		dcancel()
		if err == nil {
			break
		}
		select {
		case e := <-done:
			done <- e
			return false, fmt.Sprintf("the serving call returned (%v) before any client could connect", e)
		default:
		}
		time.Sleep(time.Millisecond)
	}
	if err != nil {
		if m.class == "strict" {
			return false, fmt.Sprintf("the service is bound to %q and serving, but NewConnection(%q) with the same string fails: %v", addr, addr, err)
		}
		return false, ""
	}
	defer conn.Close()
	var vendor string
	if err := conn.GetInfo(ctx, &vendor, nil, nil, nil, nil); err != nil {
		if m.class == "strict" {
			return false, fmt.Sprintf("connected to %q but GetInfo failed: %v", addr, err)
		}
		return false, ""
	}
	if vendor != token {
		if m.class == "strict" {
			return false, fmt.Sprintf("NewConnection(%q) reached a different service (vendor %q, want %q)", addr, vendor, token)
		}
		return false, ""
	}
	return true, ""
}

func execC19(c C19Case, bound time.Duration) (facts map[string]bool, err error) {
	facts = map[string]bool{}
	dir, derr := os.MkdirTemp("", "c19")
	if derr != nil {
		return facts, fmt.Errorf("HARNESS: %v", derr)
	}
	defer os.RemoveAll(dir)
	old, _ := os.Getwd()
	if cerr := os.Chdir(dir); cerr != nil {
		return facts, fmt.Errorf("HARNESS: %v", cerr)
	}
	defer os.Chdir(old)
	u := fmt.Sprintf("v%d-%d", os.Getpid(), atomic.AddInt64(&c19Counter, 1))
	addr := strings.ReplaceAll(strings.ReplaceAll(c.Addr, "{DIR}", dir), "{U}", u)
	if strings.Contains(addr, "{PORT}") {
		addr = strings.ReplaceAll(addr, "{PORT}", fmt.Sprint(freePort()))
	}
	m := modelAddress(addr)
	facts["class:"+m.class] = true
	// a bystander: an ordinary file in the working directory whose name equals the abstract name or the
	// host:port. Neither kind of address names anything in the filesystem, so it must survive untouched.
	bystander := ""
	if (m.abstract || m.proto == "tcp") && m.target != "" && m.target != "." && m.target != ".." && !strings.ContainsAny(m.target, "/\x00") && len(m.target) < 200 && len(addr)%3 != 0 {
		bystander = filepath.Join(dir, m.target)
		if werr := os.WriteFile(bystander, []byte("bystander"), 0o600); werr != nil {
			bystander = ""
		} else {
			facts["bystander-file"] = true
			defer func() {
				if err != nil {
					return
				}
				if b, rerr := os.ReadFile(bystander); rerr != nil || string(b) != "bystander" {
					err = fmt.Errorf("%s(%q) touched the ordinary file %q in the working directory (now: %v): this address names nothing in the filesystem", c.Op, addr, m.target, rerr)
				}
			}()
		}
	}
	token := "token-" + u
	svc, nerr := varlink.NewService(token, "p", "1", "u")
	if nerr != nil {
		return facts, fmt.Errorf("HARNESS: %v", nerr)
	}
	ctx, cancel := context.WithCancel(context.Background())
	defer cancel()

	var stuck error
	defer func() {
		if stuck != nil {
			err = stuck
		}
	}()
	shutdown := func() {
		if serr := GuardBounded("Shutdown", bound, func() error { svc.Shutdown(); return nil }); serr != nil && stuck == nil {
			stuck = fmt.Errorf("after %s(%q): %v", c.Op, addr, serr)
		}
	}
	serveOnce := func(a string) error { // bind + serve + round trip + shutdown on a known-good address
		if berr := svc.Bind(ctx, a); berr != nil {
			return fmt.Errorf("Bind(%q) of a known-good address failed: %v", a, berr)
		}
		done := make(chan error, 1)
		go func() { done <- svc.DoListen(ctx, 0) }()
		ok, msg := c19RoundTrip(svc, token, a, modelAddress(a), false, done, bound)
		dl := time.Now().Add(bound)
		for activeConns(svc) != 0 && time.Now().Before(dl) {
			time.Sleep(100 * time.Microsecond)
		}
		shutdown()
		select {
		case <-done:
		case <-time.After(bound):
			return fmt.Errorf("DoListen did not return after Shutdown")
		}
		if msg != "" {
			return fmt.Errorf("%s", msg)
		}
		if !ok {
			return fmt.Errorf("known-good address %q: no GetInfo round trip", a)
		}
		return nil
	}

	prevAddr := ""
	var linger net.Conn
	var drainDone chan error
	oldEnded := false
	endOld := func() bool { // the previous cycle's last client leaves; its serving call must return
		if linger == nil || oldEnded {
			return true
		}
		oldEnded = true
		linger.Close()
		select {
		case <-drainDone:
			return true
		case <-time.After(bound):
			return false
		}
	}
	switch c.Pre {
	case "failed-bind":
		if perr := Guard(func() error { svc.Bind(ctx, "nonsense"); return nil }); perr != nil {
			return facts, fmt.Errorf("pre-state: Bind(\"nonsense\") %v", perr)
		}
	case "bound", "bound-same":
		prevAddr = "unix:" + filepath.Join(dir, "pre-"+u)
		if c.Pre == "bound-same" && m.class == "strict" && m.fsPath != "" {
			prevAddr = addr // the very same string is bound twice, with no serve cycle in between
			facts["same-address-bound-twice"] = true
		}
		berr := svc.Bind(ctx, prevAddr)
		if berr != nil && prevAddr == addr {
			// the string under test cannot be bound here (missing directory, a directory, ...): use the neutral pre-state address
			facts["same-address-bound-twice"] = false
			prevAddr = "unix:" + filepath.Join(dir, "pre-"+u)
			berr = svc.Bind(ctx, prevAddr)
		}
		if berr != nil {
			return facts, fmt.Errorf("HARNESS: pre-state Bind: %v", berr)
		}
		defer func() {
			if l, _ := svc.GetListener(); l != nil {
				l.Close()
			}
		}()
	case "served":
		prevAddr = "unix:@pre-" + u
		if serr := serveOnce(prevAddr); serr != nil {
			return facts, fmt.Errorf("pre-state (bind, serve, shutdown): %v", serr)
		}
	case "draining":
		// an earlier serving call on another address was shut down but has not returned yet: one of its clients
		// is still connected. The object is bound and served again meanwhile; when that old client finally leaves,
		// nothing of the new cycle may be touched.
		prevAddr = "unix:@pre-" + u
		if berr := svc.Bind(ctx, prevAddr); berr != nil {
			return facts, fmt.Errorf("HARNESS: pre-state Bind: %v", berr)
		}
		drainDone = make(chan error, 1)
		go func(d chan error) { d <- svc.DoListen(ctx, 0) }(drainDone)
		for dl := time.Now().Add(bound); ; {
			linger, err = net.DialTimeout("unix", "@pre-"+u, time.Second)
			if err == nil {
				break
			}
			if time.Now().After(dl) {
				return facts, fmt.Errorf("HARNESS: pre-state dial: %v", err)
			}
			time.Sleep(time.Millisecond)
		}
		err = nil
		defer linger.Close()
		for dl := time.Now().Add(bound); activeConns(svc) != 1 && time.Now().Before(dl); {
			time.Sleep(100 * time.Microsecond)
		}
		shutdown()
		// the old call's accept loop has been told to stop; once it has let go of the listener (it does so before
		// it waits for its connections) the object may be bound again - not earlier
		for dl := time.Now().Add(bound / 2); time.Now().Before(dl); {
			if l, _ := svc.GetListener(); l == nil {
				break
			}
			time.Sleep(100 * time.Microsecond)
		}
		facts["previous-cycle-still-draining"] = true
	case "stale-socket":
		if m.fsPath != "" && m.class == "strict" {
			if l, lerr := net.Listen("unix", m.fsPath); lerr == nil {
				l.(*net.UnixListener).SetUnlinkOnClose(false)
				l.Close()
				facts["stale-socket-present"] = isSocket(m.fsPath)
			}
		}
	}
	var preListener net.Listener
	if c.Pre == "bound" || c.Pre == "bound-same" {
		preListener, _ = svc.GetListener()
	}

	switch c.Op {
	case "connect":
		var conn *varlink.Connection
		var cerr error
		perr := Guard(func() error {
			dctx, dcancel := context.WithTimeout(context.Background(), 3*time.Second)
			defer dcancel()
			conn, cerr = varlink.NewConnection(dctx, addr)
			return nil
		})
		if perr != nil {
			return facts, fmt.Errorf("NewConnection(%q) %v", addr, perr)
		}
		if conn != nil {
			conn.Close()
		}
		if cerr == nil && conn == nil {
			return facts, fmt.Errorf("NewConnection(%q) returned neither a connection nor an error", addr)
		}
		if !strings.Contains(addr, ":") && cerr == nil {
			return facts, fmt.Errorf("NewConnection(%q) succeeded for a string without a protocol", addr)
		}
		return facts, nil
	case "bind", "listen":
		var opErr error
		done := make(chan error, 1)
		if c.Op == "bind" {
			if perr := GuardBounded(fmt.Sprintf("Bind(%q)", addr), bound, func() error { opErr = svc.Bind(ctx, addr); return nil }); perr != nil {
				return facts, fmt.Errorf("Bind(%q) %v", addr, perr)
			}
		} else {
			type lres struct{ e, p error }
			res := make(chan lres, 1)
			go func() {
				var e error
				p := Guard(func() error { e = svc.Listen(ctx, addr, 0); return nil })
				res <- lres{e, p}
			}()
			// positive evidence only: either Listen has returned, or a (new) listener is installed, i.e. it is serving
			dl := time.Now().Add(bound)
			returned := false
			for !returned {
				select {
				case r := <-res:
					if r.p != nil {
						return facts, fmt.Errorf("Listen(%q) %v", addr, r.p)
					}
					opErr = r.e
					returned = true
					if opErr == nil {
						return facts, fmt.Errorf("Listen(%q) returned nil without having been shut down", addr)
					}
				default:
				}
				if returned {
					break
				}
				if l, _ := svc.GetListener(); l != nil && l != preListener {
					go func() { r := <-res; done <- r.e }()
					break
				}
				if time.Now().After(dl) {
					return facts, fmt.Errorf("Listen(%q) neither returned nor installed a listener within %v", addr, bound)
				}
				time.Sleep(100 * time.Microsecond)
			}
		}
		refusedOrFailed := opErr != nil
		if m.class == "refuse" {
			if !refusedOrFailed {
				// for listen: it is serving something; stop it first
				shutdown()
				return facts, fmt.Errorf("%s(%q) was accepted although the string %s", c.Op, addr, refuseReason(addr))
			}
			facts["refused"] = true
			l, _ := svc.GetListener()
			if l != nil && l != preListener {
				l.Close()
				return facts, fmt.Errorf("%s(%q) returned an error (%v) but installed a listener on %v", c.Op, addr, opErr, l.Addr())
			}
			if c.Pre == "served" {
				// nothing may be listening on the previously used address
				if cc, derr := net.DialTimeout("unix", strings.TrimPrefix(prevAddr, "unix:"), time.Second); derr == nil {
					cc.Close()
					return facts, fmt.Errorf("after the refused %s(%q) a listener exists again on the previously used address %s", c.Op, addr, prevAddr)
				}
			}
		} else if !refusedOrFailed {
			facts["bound"] = true
			if m.fsPath != "" && m.class == "strict" {
				p := m.fsPath
				if !isSocket(p) {
					shutdown()
					return facts, fmt.Errorf("%s(%q) succeeded but %q is not a socket in the filesystem", c.Op, addr, p)
				}
			}
			if m.abstract && m.class == "strict" && bystander == "" {
				if _, serr := os.Lstat(filepath.Join(dir, m.target)); serr == nil {
					shutdown()
					return facts, fmt.Errorf("%s(%q): an abstract address created the file %q", c.Op, addr, m.target)
				}
			}
			if c.Op == "bind" && c.Pre != "bound" && c.Pre != "bound-same" && len(addr)%2 == 0 {
				// variant: shut down without ever serving - the endpoint must be released all the same
				facts["shutdown-without-serving"] = true
				shutdown()
				if m.fsPath != "" && m.class == "strict" {
					if _, serr := os.Lstat(m.fsPath); serr == nil {
						return facts, fmt.Errorf("Bind(%q) then Shutdown (never served): the socket path %q still exists", addr, m.fsPath)
					}
				}
				if m.class == "strict" {
					if berr := svc.Bind(ctx, addr); berr != nil {
						return facts, fmt.Errorf("Bind(%q), Shutdown, Bind(%q) again: the second Bind fails (%v): the endpoint was not released", addr, addr, berr)
					}
				} else if berr := svc.Bind(ctx, addr); berr != nil {
					// don't-care class: fall through to the final "can still bind a good address" check
					goto after
				}
			}
			if c.Op == "bind" {
				go func() { done <- svc.DoListen(ctx, 0) }()
			}
			reached, msg := c19RoundTrip(svc, token, addr, m, c.Op == "listen", done, bound)
			facts["round-trip"] = reached
			if linger != nil && reached && msg == "" {
				// the old cycle's last client leaves now, its serving call returns - the new cycle goes on undisturbed
				if !endOld() {
					shutdown()
					return facts, fmt.Errorf("the earlier serving call did not return within %v after its last connection ended", bound)
				}
				time.Sleep(2 * time.Millisecond)
				if m.fsPath != "" && m.class == "strict" && !isSocket(m.fsPath) {
					shutdown()
					return facts, fmt.Errorf("%s(%q) is being served, but when the previous serving call (shut down earlier, on %s) returned, the socket path %q disappeared", c.Op, addr, prevAddr, m.fsPath)
				}
				if again, msg2 := c19RoundTrip(svc, token, addr, m, c.Op == "listen", done, bound); !again || msg2 != "" {
					shutdown()
					return facts, fmt.Errorf("%s(%q) was reachable, but no longer after the previous serving call (shut down earlier, on %s) returned: %s", c.Op, addr, prevAddr, msg2)
				}
				facts["old-cycle-ended-during-new-cycle"] = true
			}
			endOld()
			dl := time.Now().Add(bound)
			for activeConns(svc) != 0 && time.Now().Before(dl) {
				time.Sleep(100 * time.Microsecond)
			}
			shutdown()
			select {
			case <-done:
			case <-time.After(bound):
				return facts, fmt.Errorf("the serving call did not return after Shutdown (address %q)", addr)
			}
			if msg != "" {
				return facts, fmt.Errorf("%s", msg)
			}
			if m.fsPath != "" && m.class == "strict" {
				if _, serr := os.Lstat(m.fsPath); serr == nil {
					return facts, fmt.Errorf("after Shutdown and the return of the serving call the socket path %q still exists", m.fsPath)
				}
			}
		} else {
			facts["bind-failed(dont-care)"] = m.class != "refuse"
			if c.Pre == "stale-socket" && facts["stale-socket-present"] {
				return facts, fmt.Errorf("%s(%q) failed (%v) although only a stale socket file was in the way", c.Op, addr, opErr)
			}
		}
	}
after:
	if !endOld() {
		return facts, fmt.Errorf("the earlier serving call (shut down before %s(%q)) did not return within %v after its last connection ended", c.Op, addr, bound)
	}
	// whatever happened, the object must still be able to bind and serve a good address
	if (c.Pre == "bound" || c.Pre == "bound-same") && preListener != nil {
		preListener.Close()
	}
	if l, _ := svc.GetListener(); l != nil && facts["refused"] {
		l.Close()
	}
	if serr := serveOnce("unix:@post-" + u); serr != nil {
		return facts, fmt.Errorf("after %s(%q): the service can no longer bind and serve: %v", c.Op, addr, serr)
	}
	return facts, nil
}

func refuseReason(addr string) string {
	m := modelAddress(addr)
	switch {
	case !strings.Contains(addr, ":"):
		return "has no '<protocol>:' prefix"
	case m.proto != "unix" && m.proto != "tcp":
		return fmt.Sprintf("names the protocol %q (not unix or tcp)", m.proto)
	default:
		return "names an empty unix path"
	}
}

func checkC19(c C19Case, st *Stats) error {
	var facts map[string]bool
	err := Guard(func() error {
		var e error
		facts, e = execC19(c, protoBound*WatchdogScale())
		return e
	})
	if err == nil {
		if left := LibGoroutines(protoBound / 2); left != "" {
			err = fmt.Errorf("library goroutines still alive afterwards:\n%s", left)
		}
	}
	labels := []string{"op:" + c.Op, "pre:" + c.Pre}
	for k, v := range facts {
		if v {
			labels = append(labels, k)
		}
	}
	sortStrings(labels)
	nt := strings.Contains(c.Addr, ";") || strings.Contains(c.Addr, "@") || facts["class:refuse"] && strings.Contains(c.Addr, ":") || facts["stale-socket-present"]
	st.Case(HashOf(c), nt, func() interface{} { return c }, labels...)
	return err
}

var propC19 = Register(Prop[C19Case]{ID: "C19", Name: "C19", Pending: true, Check: checkC19})

func TestC19Rapid(t *testing.T) {
	p := propC19
	p.Gen = genC19
	RunRapid(t, p, "C19Rapid")
}

// TestC19Grammar: the full product protocol x path/host form x tail x operation, with the
// pre-state rotating (bounded-exhaustive over the address grammar).
func TestC19Grammar(t *testing.T) {
	var addrs []string
	seen := map[string]bool{}
	add := func(a string) {
		if !seen[a] {
			seen[a] = true
			addrs = append(addrs, a)
		}
	}
	for _, p := range []string{"unix", "tcp", "UNIX", "http", ""} {
		rests := c19UnixPaths
		if p == "tcp" {
			rests = c19TCPHosts
		}
		for _, r := range rests {
			for _, tl := range []string{"", ";", ";mode=0600", ";a;b", ";x:y"} {
				add(p + ":" + r + tl)
			}
		}
	}
	for _, a := range []string{"foo", "", "unix", "unix;x", "@{U}", "{DIR}/abs-{U}", ";"} {
		add(a)
	}
	pres := []string{"fresh", "failed-bind", "bound", "bound-same", "served", "stale-socket", "draining"}
	ops := []string{"bind", "listen", "connect"}
	shard, nshards := Shard()
	i := 0
	total := len(addrs) * len(ops)
	next := func() (C19Case, bool) {
		for i < total {
			k := i
			i++
			if k%nshards != shard {
				continue
			}
			return C19Case{Addr: addrs[k/len(ops)], Op: ops[k%len(ops)], Pre: pres[(k/len(ops)+k)%len(pres)]}, true
		}
		return C19Case{}, false
	}
	RunCases(t, propC19, "C19Grammar", true, next)
}
