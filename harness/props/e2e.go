package props

// End-to-end executor: a real varlink.Connection talks to a real varlink.Service (scripted
// dispatcher) over one of the supported transports, optionally through a recording,
// re-segmenting proxy. Everything the client API returns is compared with the reference model
// (ModelConn), everything the handler saw with what the client passed.

import (
	"bytes"
	"context"
	"encoding/json"
	"errors"
	"fmt"
	"io"
	"net"
	"os"
	"path/filepath"
	"strings"
	"sync"
	"sync/atomic"
	"time"

	"github.com/varlink/go/varlink"
)

// Step is one client operation.
type Step struct {
	API     string          `json:"api"` // "send" (Send + receive per expected reply) | "call" (Connection.Call) | "upgrade" (Connection.Upgrade)
	Method  string          `json:"method"`
	Params  json.RawMessage `json:"params,omitempty"`  // nil = no parameters
	Decoded bool            `json:"decoded,omitempty"` // pass parameters as a decoded Go value (json.Number leaves) instead of json.RawMessage
	More    bool            `json:"more,omitempty"`
	Oneway  bool            `json:"oneway,omitempty"`
	Upgrade bool            `json:"upgrade,omitempty"`
}

// E2ECase is a whole client session.
type E2ECase struct {
	Ifaces    []string `json:"ifaces"`
	Transport string   `json:"transport"` // pipe | unixfs | unixabs | tcp | bridge
	Proxy     bool     `json:"proxy,omitempty"`
	CutsC2S   []int    `json:"cuts_c2s,omitempty"`
	CutsS2C   []int    `json:"cuts_s2c,omitempty"`
	Coalesce  bool     `json:"coalesce,omitempty"` // proxy holds all reply frames of a call and delivers them under CutsS2C
	Steps     []Step   `json:"steps"`
	Origin    string   `json:"origin,omitempty"`
	// EmptyNameRefused selects the model's reading for error names with an empty <Name> part (don't-care in C12)
	EmptyNameRefused bool `json:"empty_name_refused,omitempty"`
}

// ---------------------------------------------------------------------------
// proxy

type proxyDir struct {
	mu      sync.Mutex
	cond    *sync.Cond
	rec     []byte
	pending []byte
	cuts    []int
	k       int
	hold    int  // forward only once this many NULs are pending (0 = forward as data arrives)
	gate    bool // closed: nothing is forwarded until openGate
	eof     bool // the source is finished
	segs    int  // segments written
}

func newProxyDir(cuts []int) *proxyDir {
	d := &proxyDir{cuts: cuts}
	d.cond = sync.NewCond(&d.mu)
	return d
}

func (d *proxyDir) setHold(n int) {
	d.mu.Lock()
	d.hold = n
	d.cond.Broadcast()
	d.mu.Unlock()
}

// closeGate makes the direction accumulate everything until openGate.
func (d *proxyDir) closeGate() {
	d.mu.Lock()
	d.gate = true
	d.mu.Unlock()
}

// pendingFrames returns the number of complete frames being held back.
func (d *proxyDir) pendingFrames() int {
	d.mu.Lock()
	defer d.mu.Unlock()
	return bytes.Count(d.pending, []byte{0})
}

// openGate delivers everything held back (under the cut plan) and forwards normally from then on.
func (d *proxyDir) openGate() {
	d.mu.Lock()
	d.gate = false
	d.cond.Broadcast()
	d.mu.Unlock()
}

// Recorded returns a copy of everything that passed in this direction.
func (d *proxyDir) Recorded() []byte {
	d.mu.Lock()
	defer d.mu.Unlock()
	return append([]byte(nil), d.rec...)
}

// Proxy relays between the client side conn a and the service side conn b. Like a kernel socket (and
// unlike net.Pipe) it never makes a writer wait for the reader on the other side: each direction has a
// reading goroutine that only queues and a writing goroutine that forwards under the cut plan.
type Proxy struct {
	a, b     net.Conn
	C2S, S2C *proxyDir
	wg       sync.WaitGroup
}

func (p *Proxy) reader(src net.Conn, d *proxyDir) {
	defer p.wg.Done()
	buf := make([]byte, 65536)
	for {
		n, err := src.Read(buf)
		d.mu.Lock()
		if n > 0 {
			d.rec = append(d.rec, buf[:n]...)
			d.pending = append(d.pending, buf[:n]...)
		}
		if err != nil {
			d.eof = true
		}
		d.cond.Broadcast()
		d.mu.Unlock()
		if err != nil {
			return
		}
	}
}

func (p *Proxy) writer(src, dst net.Conn, d *proxyDir) {
	defer p.wg.Done()
	for {
		d.mu.Lock()
		for !d.eof && (len(d.pending) == 0 || d.gate || (d.hold > 0 && bytes.Count(d.pending, []byte{0}) < d.hold)) {
			d.cond.Wait()
		}
		data, eof := d.pending, d.eof
		d.pending = nil
		d.hold = 0
		d.mu.Unlock()
		for len(data) > 0 {
			sz := len(data)
			if len(d.cuts) > 0 {
				sz = d.cuts[d.k%len(d.cuts)]
				d.k++
				if sz <= 0 {
					sz = 1
				}
				if sz > len(data) {
					sz = len(data)
				}
			}
			if _, werr := dst.Write(data[:sz]); werr != nil {
				src.Close()
				return
			}
			d.mu.Lock()
			d.segs++
			d.mu.Unlock()
			data = data[sz:]
		}
		if eof {
			dst.Close()
			return
		}
	}
}

func startProxy(a, b net.Conn, c2s, s2c []int) *Proxy {
	p := &Proxy{a: a, b: b, C2S: newProxyDir(c2s), S2C: newProxyDir(s2c)}
	p.wg.Add(4)
	go p.reader(a, p.C2S)
	go p.writer(a, b, p.C2S)
	go p.reader(b, p.S2C)
	go p.writer(b, a, p.S2C)
	return p
}

func (p *Proxy) close() {
	p.a.Close()
	p.b.Close()
	p.wg.Wait()
}

// ---------------------------------------------------------------------------
// environment

type e2eEnv struct {
	svc      *varlink.Service
	log      *InvLog
	cfg      SvcConfig
	fake     *FakeListener
	address  string // varlink address for NewConnection
	sockPath string
	done     chan error
	cancel   context.CancelFunc
	dir      string
	ifs      []*ScriptIface
}

var e2eCounter int64

// startE2E creates and serves a service on the given transport.
func startE2E(ifaces []string, transport string, allowIO bool) (*e2eEnv, error) {
	return startE2EWith(context.Background(), ifaces, transport, allowIO)
}

// startE2EWith: the serving context is derived from parent (which may carry a deadline).
func startE2EWith(parent context.Context, ifaces []string, transport string, allowIO bool) (*e2eEnv, error) {
	ident := [4]string{"verif-vendor", "verif \"product\"", "1.0", "http://verif.example/é"}
	s, err := varlink.NewService(ident[0], ident[1], ident[2], ident[3])
	if err != nil {
		return nil, fmt.Errorf("HARNESS: NewService: %v", err)
	}
	e := &e2eEnv{svc: s, log: &InvLog{}, done: make(chan error, 1)}
	e.cfg = SvcConfig{Ifaces: ifaces, Descs: map[string]string{"org.varlink.service": builtinDescMarker}, Ident: ident}
	for _, n := range ifaces {
		d := "interface " + n + "\nmethod X() -> ()\n"
		e.cfg.Descs[n] = d
		si := &ScriptIface{Name: n, Desc: d, Log: e.log, AllowIO: allowIO}
		e.ifs = append(e.ifs, si)
		if err := s.RegisterInterface(si); err != nil {
			return nil, fmt.Errorf("HARNESS: RegisterInterface(%q): %v", n, err)
		}
	}
	ctx, cancel := context.WithCancel(parent)
	e.cancel = cancel
	id := fmt.Sprintf("verif-%d-%d", os.Getpid(), atomic.AddInt64(&e2eCounter, 1))
	switch transport {
	case "pipe":
		e.fake = NewFakeListener()
		s.VerifSetListener(e.fake)
	case "unixabs", "bridge":
		e.sockPath = "@" + id
		e.address = "unix:" + e.sockPath
	case "unixfs":
		dir, err := os.MkdirTemp("", "vfs")
		if err != nil {
			cancel()
			return nil, fmt.Errorf("HARNESS: %v", err)
		}
		e.dir = dir
		e.sockPath = filepath.Join(dir, "s")
		e.address = "unix:" + e.sockPath
	case "tcp":
		e.address = "tcp:127.0.0.1:0"
	default:
		cancel()
		return nil, fmt.Errorf("HARNESS: unknown transport %q", transport)
	}
	if e.fake == nil {
		if err := s.Bind(ctx, e.address); err != nil {
			e.cleanup()
			return nil, fmt.Errorf("HARNESS: Bind(%q): %v", e.address, err)
		}
		if transport == "tcp" {
			l, _ := s.GetListener()
			if l == nil {
				e.cleanup()
				return nil, fmt.Errorf("HARNESS: no listener after Bind")
			}
			e.address = "tcp:" + l.Addr().String()
		}
	}
	go func() { e.done <- s.DoListen(ctx, 0) }()
	return e, nil
}

func (e *e2eEnv) cleanup() {
	e.cancel()
	if e.dir != "" {
		os.RemoveAll(e.dir)
	}
}

// BridgeCommand is the shell command that relays stdin/stdout to the unix socket addr.
func BridgeCommand(addr string) string {
	return fmt.Sprintf("VERIF_HELPER=relay VERIF_RELAY_ADDR='%s' exec '%s' -test.run '^$'", addr, os.Args[0])
}

// dial opens the client connection (through a proxy on the pipe transport when asked).
func (e *e2eEnv) dial(c E2ECase, bound time.Duration) (*varlink.Connection, *Proxy, error) {
	switch c.Transport {
	case "pipe":
		sc := e.fake.Connect()
		if !c.Proxy {
			return varlink.VerifNewConnection(sockLikePipe{sc}), nil, nil
		}
		c1, c2 := net.Pipe()
		p := startProxy(c2, sc, c.CutsC2S, c.CutsS2C)
		return varlink.VerifNewConnection(sockLikePipe{c1}), p, nil
	case "bridge":
		conn, err := varlink.NewBridgeWithStderr(BridgeCommand(e.sockPath), io.Discard)
		if err != nil {
			return nil, nil, fmt.Errorf("HARNESS: NewBridge: %v", err)
		}
		return conn, nil, nil
	default:
		ctx, cancel := context.WithTimeout(context.Background(), bound)
		defer cancel()
		var lastErr error
		for dl := time.Now().Add(bound); time.Now().Before(dl); {
			conn, err := varlink.NewConnection(ctx, e.address)
			if err == nil {
				return conn, nil, nil
			}
			lastErr = err
			time.Sleep(time.Millisecond)
		}
		return nil, nil, fmt.Errorf("NewConnection(%q) failed although the service is bound and serving: %v", e.address, lastErr)
	}
}

// stop shuts down and waits for DoListen.
func (e *e2eEnv) stop(bound time.Duration) error {
	defer e.cleanup()
	dl := time.Now().Add(bound)
	for activeConns(e.svc) != 0 && time.Now().Before(dl) {
		time.Sleep(100 * time.Microsecond)
	}
	if n := activeConns(e.svc); n != 0 {
		e.svc.Shutdown()
		return fmt.Errorf("active-connection count is %d after every client connection was closed", n)
	}
	e.svc.Shutdown()
	select {
	case err := <-e.done:
		if err != nil {
			// with real listeners Shutdown may race the loop's own test of the flag; only nil is specified when it waits in Accept
			if e.fake != nil {
				return fmt.Errorf("DoListen returned %v after Shutdown", err)
			}
		}
		return nil
	case <-time.After(bound):
		return fmt.Errorf("DoListen did not return within %v after Shutdown although all connections are gone", bound)
	}
}

// ---------------------------------------------------------------------------
// comparison helpers

func decodeNumberTree(b []byte) (interface{}, error) {
	dec := json.NewDecoder(bytes.NewReader(b))
	dec.UseNumber()
	var v interface{}
	err := dec.Decode(&v)
	return v, err
}

// CheckClientError compares the error returned by the client with the expected error frame.
func CheckClientError(err error, e ExpFrame) string {
	if err == nil {
		return fmt.Sprintf("the client reported success, want error %q", e.Error)
	}
	// the string the typed error must carry: decoded with a mirror struct (own type, same library), so that
	// encoding/json's member matching rules (case-insensitive, last one wins) are the model's too
	want := func(field string) (string, bool) {
		if e.Params == nil {
			return "", true
		}
		var got string
		var derr error
		switch field {
		case "interface":
			var m struct {
				V string `json:"interface"`
			}
			derr = json.Unmarshal(e.Params, &m)
			got = m.V
		case "method":
			var m struct {
				V string `json:"method"`
			}
			derr = json.Unmarshal(e.Params, &m)
			got = m.V
		default:
			var m struct {
				V string `json:"parameter"`
			}
			derr = json.Unmarshal(e.Params, &m)
			got = m.V
		}
		if derr != nil {
			var probe map[string]json.RawMessage
			if json.Unmarshal(e.Params, &probe) != nil {
				return "", true // not an object at all: the typed error with an empty string, or the generic error (decided by the caller)
			}
			return "", false // an object whose member has the wrong type: only the generic error fits
		}
		return got, true
	}
	switch e.Error {
	case "org.varlink.service.InterfaceNotFound":
		w, ok := want("interface")
		if !ok {
			break
		}
		x, is := err.(*varlink.InterfaceNotFound)
		if !is {
			return fmt.Sprintf("client error is %T (%v), want *varlink.InterfaceNotFound", err, err)
		}
		if x.Interface != w {
			return fmt.Sprintf("InterfaceNotFound carries %q, want %q", x.Interface, w)
		}
		return ""
	case "org.varlink.service.MethodNotFound":
		w, ok := want("method")
		if !ok {
			break
		}
		x, is := err.(*varlink.MethodNotFound)
		if !is {
			return fmt.Sprintf("client error is %T (%v), want *varlink.MethodNotFound", err, err)
		}
		if x.Method != w {
			return fmt.Sprintf("MethodNotFound carries %q, want %q", x.Method, w)
		}
		return ""
	case "org.varlink.service.MethodNotImplemented":
		w, ok := want("method")
		if !ok {
			break
		}
		x, is := err.(*varlink.MethodNotImplemented)
		if !is {
			return fmt.Sprintf("client error is %T (%v), want *varlink.MethodNotImplemented", err, err)
		}
		if x.Method != w {
			return fmt.Sprintf("MethodNotImplemented carries %q, want %q", x.Method, w)
		}
		return ""
	case "org.varlink.service.InvalidParameter":
		w, ok := want("parameter")
		if !ok {
			break
		}
		x, is := err.(*varlink.InvalidParameter)
		if !is {
			return fmt.Sprintf("client error is %T (%v), want *varlink.InvalidParameter", err, err)
		}
		if x.Parameter != w {
			return fmt.Sprintf("InvalidParameter carries %q, want %q", x.Parameter, w)
		}
		return ""
	}
	x, is := err.(*varlink.Error)
	if !is {
		return fmt.Sprintf("client error is %T (%v), want *varlink.Error named %q", err, err, e.Error)
	}
	if x.Name != e.Error {
		return fmt.Sprintf("client error name %q, want %q", x.Name, e.Error)
	}
	if x.Error() != e.Error {
		return fmt.Sprintf("client error Error() = %q, want %q", x.Error(), e.Error)
	}
	var got []byte
	switch p := x.Parameters.(type) {
	case nil:
	case *json.RawMessage:
		if p != nil {
			got = []byte(*p)
		}
	case json.RawMessage:
		got = []byte(p)
	default:
		b, merr := json.Marshal(p)
		if merr != nil {
			return fmt.Sprintf("client error parameters of type %T do not marshal: %v", p, merr)
		}
		got = b
	}
	if got != nil && string(bytes.TrimSpace(got)) == "null" {
		got = nil
	}
	if e.Params == nil {
		if got != nil {
			return fmt.Sprintf("client error carries parameters %s, none were sent", Preview(got))
		}
		return ""
	}
	if got == nil {
		return fmt.Sprintf("client error carries no parameters, sent %s", Preview(e.Params))
	}
	if d := JSONDiff(e.Params, got); d != "" {
		return "client error parameters differ: " + d
	}
	return ""
}

func isTimeoutErr(err error) bool {
	if err == nil {
		return false
	}
	if errors.Is(err, context.DeadlineExceeded) || errors.Is(err, os.ErrDeadlineExceeded) {
		return true
	}
	var ne net.Error
	return errors.As(err, &ne) && ne.Timeout()
}

// E2EOutcome reports facts for non-triviality rules.
type E2EOutcome struct {
	Replies     int
	Continues   int
	Errors      int
	Comparisons int
	C2S, S2C    []byte
	SegsS2C     int
}

// ExecE2E runs the case; nil error = everything matched the model.
func ExecE2E(c E2ECase, bound time.Duration) (*E2EOutcome, error) {
	bound *= WatchdogScale()
	// a time budget must follow the amount of work: large documents relayed in tiny segments cost one
	// rendezvous per segment (about 2-50 us each, depending on load)
	total := 0
	for _, st := range c.Steps {
		total += 2 * len(st.Params)
	}
	bound += workAllowance(total, append(append([]int(nil), c.CutsC2S...), c.CutsS2C...), c.Proxy)
	out := &E2EOutcome{}
	env, err := startE2E(c.Ifaces, c.Transport, false)
	if err != nil {
		return out, err
	}
	env.cfg.DontCareAccept = !c.EmptyNameRefused
	conn, proxy, err := env.dial(c, bound)
	if err != nil {
		env.svc.Shutdown()
		env.cleanup()
		return out, err
	}
	closed := false
	closeAll := func() {
		if !closed {
			closed = true
			conn.Close()
			if proxy != nil {
				proxy.close()
			}
		}
	}
	defer closeAll()

	type keptErr struct {
		err  error
		exp  ExpFrame
		what string
	}
	var kept []keptErr
	var frames [][]byte
	prevExp, prevInv := 0, 0
	dead := false
	var verr error
	for si, st := range c.Steps {
		pre := fmt.Sprintf("step %d (%s %q): ", si, st.API, st.Method)
		flags := uint64(0)
		if st.More {
			flags |= varlink.More
		}
		if st.Oneway {
			flags |= varlink.Oneway
		}
		if st.Upgrade {
			flags |= varlink.Upgrade
		}
		var params interface{}
		if st.Params != nil {
			if st.Decoded {
				v, derr := decodeNumberTree(st.Params)
				if derr != nil {
					return out, fmt.Errorf("HARNESS: %sparameters do not decode: %v", pre, derr)
				}
				params = v
			} else {
				params = st.Params
			}
		}
		frame := EncodeCall(st.Method, st.Params, st.More, st.Oneway, st.Upgrade)
		frames = append(frames, frame)
		exp, inv, alive, _ := ModelConn(env.cfg, frames)
		myExp := exp[prevExp:]
		prevExp = len(exp)
		_ = inv
		prevInv = len(inv)
		if proxy != nil && c.Coalesce {
			proxy.S2C.setHold(len(myExp))
		}
		ctx, cancel := context.WithTimeout(context.Background(), bound)
		recvOne := func(receive func(context.Context, interface{}) (uint64, error), e ExpFrame, k int) error {
			var raw json.RawMessage
			var target interface{} = &raw
			if e.Kind == "error" && (si+k)%2 == 0 {
				// an error reply's parameters are not the call's output: a typed output value that they do not fit
				// (every member an int) must not get in the way of the error
				target = &map[string]int{}
			}
			fl, rerr := receive(ctx, target)
			out.Comparisons++
			if isTimeoutErr(rerr) {
				return fmt.Errorf("%sreceive %d did not return within %v (expected %s)", pre, k, bound, describeExp([]ExpFrame{e}))
			}
			if e.Kind == "error" {
				out.Errors++
				if d := CheckClientError(rerr, e); d != "" {
					return fmt.Errorf("%sreply %d: %s", pre, k, d)
				}
				// an error value handed to the caller must stay what it was, whatever happens later on this or any other connection
				kept = append(kept, keptErr{rerr, e, fmt.Sprintf("%sreply %d", pre, k)})
				return nil
			}
			if rerr != nil {
				return fmt.Errorf("%sreceive %d returned error %v (%T), want a reply: %s", pre, k, rerr, rerr, describeExp([]ExpFrame{e}))
			}
			out.Replies++
			if (fl&varlink.Continues != 0) != e.Continues {
				return fmt.Errorf("%sreply %d: Continues flag = %v, the handler set %v", pre, k, fl&varlink.Continues != 0, e.Continues)
			}
			if fl&^uint64(varlink.Continues) != 0 {
				return fmt.Errorf("%sreply %d: receive returned unknown flag bits %#x", pre, k, fl)
			}
			if e.Continues {
				out.Continues++
			}
			if e.Kind == "getinfo" {
				return nil
			}
			if e.Params == nil {
				if raw != nil && string(raw) != "null" {
					return fmt.Errorf("%sreply %d: client got parameters %s, the handler sent none", pre, k, Preview(raw))
				}
				return nil
			}
			if raw == nil {
				return fmt.Errorf("%sreply %d: client got no parameters, the handler sent %s", pre, k, Preview(e.Params))
			}
			if d := JSONDiff(e.Params, raw); d != "" {
				return fmt.Errorf("%sreply %d: parameters differ from what the handler sent: %s", pre, k, d)
			}
			return nil
		}
		switch st.API {
		case "call":
			if len(myExp) != 1 || flags != 0 {
				cancel()
				return out, fmt.Errorf("HARNESS: %sCall needs exactly one expected reply and no flags", pre)
			}
			one := func(ctx context.Context, o interface{}) (uint64, error) {
				return 0, conn.Call(ctx, st.Method, params, o)
			}
			e := myExp[0]
			e.Continues = false
			verr = recvOne(one, e, 0)
		case "upgrade":
			up, serr := conn.Upgrade(ctx, st.Method, params)
			if serr != nil {
				verr = fmt.Errorf("%sUpgrade failed: %v", pre, serr)
				break
			}
			for k, e := range myExp {
				rcv := func(ctx context.Context, o interface{}) (uint64, error) {
					fl, rwc, rerr := up(ctx, o)
					if rerr == nil && rwc == nil {
						return fl, fmt.Errorf("Upgrade's receive returned a nil connection without error")
					}
					return fl, rerr
				}
				if verr = recvOne(rcv, e, k); verr != nil {
					break
				}
			}
		default:
			receive, serr := conn.Send(ctx, st.Method, params, flags)
			if serr != nil {
				if dead {
					break
				}
				verr = fmt.Errorf("%sSend failed: %v", pre, serr)
				break
			}
			if c.Transport == "bridge" && !alive {
				// a slow consumer: the handler ends the connection after its replies, so the bridge process is gone
				// before the client reads them; what was written before must still be delivered
				time.Sleep(300 * time.Millisecond)
			}
			for k, e := range myExp {
				if verr = recvOne(receive, e, k); verr != nil {
					break
				}
			}
			if verr == nil && !alive && !dead {
				// the handler ended the connection: one more receive must fail, not hang and not succeed
				var raw json.RawMessage
				_, rerr := receive(ctx, &raw)
				if rerr == nil {
					verr = fmt.Errorf("%sthe handler returned an error, so the connection must end, but another receive succeeded with %s", pre, Preview(raw))
				} else if isTimeoutErr(rerr) {
					verr = fmt.Errorf("%sthe handler returned an error, so the connection must end, but receive hung for %v", pre, bound)
				}
			}
		}
		cancel()
		if verr != nil {
			break
		}
		if !alive {
			dead = true
			break
		}
	}
	_ = prevInv
	if proxy != nil {
		// give the last oneway calls time to reach the service before closing: a sentinel round trip
		if verr == nil && !dead {
			ctx, cancel := context.WithTimeout(context.Background(), bound)
			var v, p, ver, u string
			var ifs []string
			if gerr := conn.GetInfo(ctx, &v, &p, &ver, &u, &ifs); gerr != nil {
				verr = fmt.Errorf("sentinel GetInfo after the steps failed: %v", gerr)
			}
			cancel()
		}
	} else if verr == nil && !dead {
		ctx, cancel := context.WithTimeout(context.Background(), bound)
		var v string
		if gerr := conn.GetInfo(ctx, &v, nil, nil, nil, nil); gerr != nil {
			verr = fmt.Errorf("sentinel GetInfo after the steps failed: %v", gerr)
		} else if v != env.cfg.Ident[0] {
			verr = fmt.Errorf("sentinel GetInfo returned vendor %q, want %q", v, env.cfg.Ident[0])
		}
		cancel()
	}
	if verr == nil {
		for _, k := range kept {
			if d := CheckClientError(k.err, k.exp); d != "" {
				verr = fmt.Errorf("%s: the error value returned earlier changed after later calls: %s", k.what, d)
				break
			}
		}
	}
	closeAll()
	if proxy != nil {
		out.C2S, out.S2C = proxy.C2S.Recorded(), proxy.S2C.Recorded()
		out.SegsS2C = proxy.S2C.segs
	}
	serr := env.stop(bound)
	if verr != nil {
		return out, verr
	}
	if serr != nil {
		return out, serr
	}
	if left := LibGoroutines(bound / 2); left != "" {
		return out, fmt.Errorf("library goroutines still alive after client close and Shutdown:\n%s", left)
	}

	// what the handlers saw
	_, wantInv, _, _ := ModelConn(env.cfg, frames)
	gotInv := env.log.All()
	if len(gotInv) != len(wantInv) {
		return out, fmt.Errorf("%d handler invocations logged, model expects %d\n got: %s\n model: %s", len(gotInv), len(wantInv), describeInv(gotInv), describeExpInv(wantInv))
	}
	for i := range wantInv {
		g, w := gotInv[i], wantInv[i]
		out.Comparisons++
		if g.Iface != w.Iface || g.Method != w.Method {
			return out, fmt.Errorf("invocation %d went to %q method %q, model expects %q method %q", i, g.Iface, g.Method, w.Iface, w.Method)
		}
		if g.More != w.More || g.Oneway != w.Oneway || g.Upgrade != w.Upgrade {
			return out, fmt.Errorf("invocation %d: handler saw more/oneway/upgrade = %v/%v/%v, the client requested %v/%v/%v", i, g.More, g.Oneway, g.Upgrade, w.More, w.Oneway, w.Upgrade)
		}
		if w.Params == nil {
			if g.ParamErr == "" && string(g.Params) != "null" {
				return out, fmt.Errorf("invocation %d: handler read parameters %s although the client passed none", i, Preview(g.Params))
			}
		} else {
			if g.ParamErr != "" {
				return out, fmt.Errorf("invocation %d: GetParameters failed (%s), the client passed %s", i, g.ParamErr, Preview(w.Params))
			}
			if d := JSONDiff(w.Params, g.Params); d != "" {
				return out, fmt.Errorf("invocation %d: the handler read parameters that differ from what the client passed: %s", i, d)
			}
		}
		for j := range w.Results {
			if j < len(g.Results) && !w.DontCare[j] && (g.Results[j].Err == "") != w.Results[j] {
				return out, fmt.Errorf("invocation %d action %d returned %q to the handler, model expects success=%v", i, j, g.Results[j].Err, w.Results[j])
			}
		}
	}
	return out, nil
}

// workAllowance is the extra time granted for moving total bytes in segments of the smallest cut size.
func workAllowance(total int, cuts []int, segmented bool) time.Duration {
	min := 65536
	if segmented {
		for _, c := range cuts {
			if c > 0 && c < min {
				min = c
			}
		}
	}
	writes := total/min + 1
	return time.Duration(writes)*100*time.Microsecond + time.Duration(total/1000)*time.Millisecond
}

// CheckWireStream verifies the framing validity predicate of C02 on captured bytes.
func CheckWireStream(dir string, b []byte, wantFrames int) string {
	frames, rest := SplitFrames(b)
	if len(rest) != 0 {
		return fmt.Sprintf("%s: stream ends with %d bytes not followed by a NUL: %s", dir, len(rest), Preview(rest))
	}
	if wantFrames >= 0 && len(frames) != wantFrames {
		return fmt.Sprintf("%s: %d NUL-terminated pieces on the wire, %d messages were sent", dir, len(frames), wantFrames)
	}
	for i, f := range frames {
		if !json.Valid(f) {
			return fmt.Sprintf("%s: piece %d is not valid JSON: %s", dir, i, Preview(f))
		}
		t := strings.TrimLeft(string(f), " \t\r\n")
		if !strings.HasPrefix(t, "{") {
			return fmt.Sprintf("%s: piece %d is not a JSON object: %s", dir, i, Preview(f))
		}
	}
	return ""
}
