package props

// C07 Interface generator emits compiling Go for every accepted description.

import (
	"bytes"
	"fmt"
	"go/ast"
	"go/build"
	"go/importer"
	"go/parser"
	"go/token"
	"go/types"
	"io"
	"os"
	"os/exec"
	"path/filepath"
	"strings"
	"sync"
	"testing"
	"time"
	"unicode"

	"github.com/varlink/go/varlink/idl"
	"pgregory.net/rapid"
)

// C07Case is one description handed to the generator.
type C07Case struct {
	Desc   string `json:"desc"`
	Tree   *Iface `json:"tree,omitempty"`
	Origin string `json:"origin,omitempty"`
}

var genBin struct {
	once sync.Once
	path string
	err  error
	dir  string
}

func repoDir() string {
	if d := os.Getenv("VERIF_REPO"); d != "" {
		return d
	}
	return "/repo"
}

func harnessDir() string {
	if d := os.Getenv("VERIF_HARNESS"); d != "" {
		return d
	}
	return "/verif/harness"
}

// generatorBinary builds /repo/cmd/varlink-go-interface-generator once per process.
func generatorBinary() (string, error) {
	genBin.once.Do(func() {
		dir, err := os.MkdirTemp(os.Getenv("VERIF_WORK"), "genbin")
		if err != nil {
			genBin.err = err
			return
		}
		genBin.dir = dir
		out := filepath.Join(dir, "varlink-go-interface-generator")
		cmd := exec.Command("go", "build", "-o", out, "./cmd/varlink-go-interface-generator/")
		cmd.Dir = repoDir()
		cmd.Env = append(os.Environ(), "GOFLAGS=-mod=mod", "GOPROXY=off", "GOSUMDB=off", "GOTOOLCHAIN=local")
		if b, err := cmd.CombinedOutput(); err != nil {
			genBin.err = fmt.Errorf("HARNESS: building the generator failed: %v\n%s", err, b)
			return
		}
		genBin.path = out
	})
	return genBin.path, genBin.err
}

type genRun struct {
	exit    int
	stderr  string
	files   map[string][]byte // new .go files in the directory
	timeout bool
}

func runGenerator(desc string, dir string) (genRun, error) {
	bin, err := generatorBinary()
	if err != nil {
		return genRun{}, err
	}
	if err := os.MkdirAll(dir, 0o755); err != nil {
		return genRun{}, fmt.Errorf("HARNESS: %v", err)
	}
	in := filepath.Join(dir, "input.varlink")
	if err := os.WriteFile(in, []byte(desc), 0o644); err != nil {
		return genRun{}, fmt.Errorf("HARNESS: %v", err)
	}
	cmd := exec.Command(bin, in)
	var stderr bytes.Buffer
	cmd.Stderr = &stderr
	cmd.Stdout = &stderr
	done := make(chan error, 1)
	if err := cmd.Start(); err != nil {
		return genRun{}, fmt.Errorf("HARNESS: %v", err)
	}
	go func() { done <- cmd.Wait() }()
	r := genRun{files: map[string][]byte{}}
	select {
	case err := <-done:
		if ee, ok := err.(*exec.ExitError); ok {
			r.exit = ee.ExitCode()
		} else if err != nil {
			return r, fmt.Errorf("HARNESS: %v", err)
		}
	case <-time.After(30 * time.Second * WatchdogScale()):
		cmd.Process.Kill()
		<-done
		r.timeout = true
	}
	r.stderr = stderr.String()
	ents, _ := os.ReadDir(dir)
	for _, e := range ents {
		if e.Name() != "input.varlink" {
			b, _ := os.ReadFile(filepath.Join(dir, e.Name()))
			r.files[e.Name()] = b
		}
	}
	return r, nil
}

var typeCheck struct {
	mu   sync.Mutex
	fset *token.FileSet
	imp  types.Importer
}

// typeCheckGenerated parses and type-checks one generated file against /repo's varlink package.
func typeCheckGenerated(src []byte) (*types.Package, *ast.File, *types.Info, error) {
	typeCheck.mu.Lock()
	defer typeCheck.mu.Unlock()
	if typeCheck.fset == nil {
		typeCheck.fset = token.NewFileSet()
		build.Default.Dir = harnessDir() // the go command is consulted from inside the harness module (replace => tree under test)
		typeCheck.imp = importer.ForCompiler(typeCheck.fset, "source", nil)
	}
	// the (virtual) file lives in the harness module, whose go.mod resolves github.com/varlink/go to the tree under test
	fname := filepath.Join(harnessDir(), "props", fmt.Sprintf("generated_%d.go", time.Now().UnixNano()))
	f, err := parser.ParseFile(typeCheck.fset, fname, src, parser.ParseComments)
	if err != nil {
		return nil, nil, nil, fmt.Errorf("the generated file does not parse: %v", err)
	}
	var errs []string
	conf := types.Config{Importer: typeCheck.imp, Error: func(e error) {
		if len(errs) < 6 {
			errs = append(errs, e.Error())
		}
	}}
	info := &types.Info{Defs: map[*ast.Ident]types.Object{}}
	pkg, _ := conf.Check(f.Name.Name, typeCheck.fset, []*ast.File{f}, info)
	if len(errs) > 0 {
		for _, e := range errs {
			if strings.Contains(e, "could not import github.com/varlink/go/varlink") {
				return nil, nil, nil, fmt.Errorf("HARNESS: %s", e)
			}
		}
		return nil, nil, nil, fmt.Errorf("the generated file does not type-check: %s", strings.Join(errs, "\n  "))
	}
	return pkg, f, info, nil
}

func lettersDigitsLower(s string) string {
	var b strings.Builder
	for _, r := range strings.ToLower(s) {
		if unicode.IsLetter(r) || unicode.IsDigit(r) {
			b.WriteRune(r)
		}
	}
	return b.String()
}

var c07Seq int64
var c07SeqMu sync.Mutex

// generateChecked runs the in-process part of C07 and returns the generated source.
func generateChecked(desc string, workDir string) (src []byte, pkgName string, rejected bool, err error) {
	c07SeqMu.Lock()
	c07Seq++
	n := c07Seq
	c07SeqMu.Unlock()
	dir := filepath.Join(workDir, fmt.Sprintf("g%d", n))
	defer os.RemoveAll(dir)
	tree, perr := idl.New(strings.TrimRight(desc, "\n"))
	r, rerr := runGenerator(desc, dir)
	if rerr != nil {
		return nil, "", false, rerr
	}
	if r.timeout {
		return nil, "", false, fmt.Errorf("the generator did not terminate within the bound")
	}
	if strings.Contains(r.stderr, "panic:") || strings.Contains(r.stderr, "goroutine 1 [") || r.exit == 2 || r.exit < 0 {
		return nil, "", false, fmt.Errorf("the generator crashed (exit %d):\n%s", r.exit, trimLines(r.stderr, 14))
	}
	if perr != nil {
		// the parser rejects it: not in the statement's domain; the generator must just fail cleanly
		if r.exit == 0 {
			return nil, "", true, fmt.Errorf("the parser rejects the description (%v) but the generator exited 0", perr)
		}
		return nil, "", true, nil
	}
	if r.exit != 0 {
		return nil, "", false, fmt.Errorf("the generator failed (exit %d) on a description the parser accepts: %s", r.exit, trimLines(r.stderr, 8))
	}
	if len(r.files) != 1 {
		var names []string
		for k := range r.files {
			names = append(names, k)
		}
		return nil, "", false, fmt.Errorf("the generator wrote %d files %v, want exactly one", len(r.files), names)
	}
	var fname string
	for k, v := range r.files {
		fname, src = k, v
	}
	pkg, f, _, terr := typeCheckGenerated(src)
	if terr != nil {
		return src, "", false, terr
	}
	pkgName = f.Name.Name
	if fname != pkgName+".go" {
		return src, pkgName, false, fmt.Errorf("the generated file is named %q but declares package %q", fname, pkgName)
	}
	// the file must belong to its package as the go tool sees it: not a _test.go file, not excluded by a _GOOS/_GOARCH suffix
	bctx := build.Default
	bctx.OpenFile = func(string) (io.ReadCloser, error) { return io.NopCloser(bytes.NewReader(src)), nil }
	if strings.HasSuffix(fname, "_test.go") {
		return src, pkgName, false, fmt.Errorf("the generated file is named %q: the go tool takes it for a test file, the package has no other source", fname)
	}
	if ok, merr := bctx.MatchFile(dir, fname); merr != nil || !ok {
		return src, pkgName, false, fmt.Errorf("the generated file %q is excluded from its package by the go tool (file-name or build constraints; %v)", fname, merr)
	}
	if want := lettersDigitsLower(tree.Name); lettersDigitsLower(pkgName) != want || pkgName != strings.ToLower(pkgName) {
		return src, pkgName, false, fmt.Errorf("package name %q is not derived from the interface name %q (letters and digits %q)", pkgName, tree.Name, want)
	}
	_ = pkg
	// determinism; every other time the second run finds an older, longer output of the same name in place
	// (the usual go:generate situation): what it leaves behind must still be exactly this source
	stale := n%2 == 0
	defer os.RemoveAll(dir + "b")
	if stale {
		os.MkdirAll(dir+"b", 0o755)
		old := append(append([]byte(nil), src...), []byte("\n// an older, longer version of this file\nfunc staleTail() { this is not Go }\n")...)
		if werr := os.WriteFile(filepath.Join(dir+"b", fname), old, 0o644); werr != nil {
			return src, pkgName, false, fmt.Errorf("HARNESS: %v", werr)
		}
	}
	r2, rerr := runGenerator(desc, dir+"b")
	if rerr != nil {
		return src, pkgName, false, rerr
	}
	if !bytes.Equal(r2.files[fname], src) {
		if stale {
			return src, pkgName, false, fmt.Errorf("running the generator again in a directory that holds an older, longer %s left %d bytes there, a fresh run writes %d (same input, different bytes; exit %d)", fname, len(r2.files[fname]), len(src), r2.exit)
		}
		return src, pkgName, false, fmt.Errorf("running the generator twice on the same input gave different bytes")
	}
	return src, pkgName, false, nil
}

func trimLines(s string, n int) string {
	l := strings.Split(strings.TrimSpace(s), "\n")
	if len(l) > n {
		l = l[:n]
	}
	return strings.Join(l, "\n")
}

func c07WorkDir() string {
	if d := os.Getenv("VERIF_WORK"); d != "" {
		return d
	}
	return os.TempDir()
}

func checkC07(c C07Case, st *Stats) error {
	_, _, rejected, err := generateChecked(c.Desc, c07WorkDir())
	labels := []string{"origin:" + c.Origin}
	nt := false
	if rejected {
		labels = append(labels, "parser-rejects(not-in-domain)")
	}
	if c.Tree != nil {
		cells := map[string]bool{}
		composite, withParams := false, false
		for _, m := range c.Tree.Members {
			switch m.Kind {
			case "method":
				tyCells("method-in", m.In, cells, 0)
				tyCells("method-out", m.Out, cells, 0)
				if len(m.In.Fields)+len(m.Out.Fields) > 0 {
					withParams = true
				}
			case "error":
				tyCells("error", m.T, cells, 0)
			case "type":
				tyCells("alias", m.T, cells, 0)
			}
		}
		for k := range cells {
			labels = append(labels, "cell:"+k)
			if !strings.HasSuffix(k, ":bool") && !strings.HasSuffix(k, ":int") && !strings.HasSuffix(k, ":float") && !strings.HasSuffix(k, ":string") {
				composite = true
			}
		}
		nt = composite && withParams
		if strings.Contains(c.Tree.Name, "-") {
			labels = append(labels, "iface:dash")
		}
		if strings.ToLower(c.Tree.Name) != c.Tree.Name {
			labels = append(labels, "iface:uppercase")
		}
	}
	if strings.Contains(c.Desc, "\r") {
		labels = append(labels, "layout:CRLF")
	}
	if strings.Contains(c.Desc, "`") {
		labels = append(labels, "doc:backtick")
	}
	sortStrings(labels)
	st.Case(HashOf(IDLNormalise(c.Desc)), nt, func() interface{} { return C07Case{Desc: c.Desc, Origin: c.Origin} }, labels...)
	st.Count("programs", 1)
	return err
}

var propC07 = Register(Prop[C07Case]{ID: "C07", Name: "C07", Check: checkC07})

var c07Opts = C07Opts{NoErrorFieldInErrors: true}

func genC07(t *rapid.T) C07Case {
	tree := GenIfaceC07(t, 6, c07Opts)
	eol := "\n"
	if rapid.IntRange(0, 5).Draw(t, "crlf") == 0 {
		eol = "\r\n"
	}
	desc := RenderC07(tree, eol, rapid.IntRange(0, 3).Draw(t, "trailing"), rapid.IntRange(0, 3).Draw(t, "perline") == 0)
	desc = blankTail(t, desc, eol)
	return C07Case{Desc: desc, Tree: tree, Origin: "rapid"}
}

func TestC07Rapid(t *testing.T) {
	p := propC07
	p.Gen = genC07
	RunRapid(t, p, "C07Rapid")
}

// TestC07Matrix: every type constructor at every position (method in, method out, error parameter,
// alias body), directly and nested once inside each other constructor, plus the special cases the
// statement names (typeless error, dash and upper case in the interface name, Go keywords and
// generator-local identifiers as field names, backticks in comments, CRLF).
func TestC07Matrix(t *testing.T) {
	leaves := []string{"bool", "int", "float", "string", "object", "T", "E", "(a: int, b: ?string)", "(x, y)", "()"}
	wraps := []string{"%s", "?%s", "[]%s", "[string]%s", "?[]%s", "[]?%s", "[string][]%s", "?[string]%s", "[][]%s", "?(n: %s)", "[](n: ?%s)", "[string](n: []%s)"}
	var tys []string
	for _, w := range wraps {
		for _, l := range leaves {
			ty := fmt.Sprintf(w, l)
			if strings.HasPrefix(ty, "??") {
				continue
			}
			tys = append(tys, ty)
		}
	}
	var descs []string
	hdr := "interface org.example.matrix\ntype T (f: int, g: ?T, h: []T)\ntype E (one, two)\n"
	for _, ty := range tys {
		descs = append(descs, hdr+"method M(p: "+ty+") -> ()\n")
		descs = append(descs, hdr+"method M() -> (r: "+ty+")\n")
		descs = append(descs, hdr+"method M() -> ()\nerror Bad (why: "+ty+")\n")
		descs = append(descs, hdr+"type A (v: "+ty+")\nmethod M(a: A) -> (b: ?A)\n")
	}
	// anonymous structs nested d levels deep (plain, and through optional / array / map), in every position
	for _, d := range []int{2, 4, 5, 6, 7, 8, 9, 10, 13, 17} {
		for v, open := range []string{"(n: ", "?(n: [](m: "} {
			depth := d
			closeTok := ")"
			if v == 1 {
				depth, closeTok = (d+1)/2, "))"
			}
			ty := strings.Repeat(open, depth) + "int" + strings.Repeat(closeTok, depth)
			descs = append(descs, hdr+"method M(p: "+ty+") -> (r: "+ty+")\n")
			descs = append(descs, hdr+"type A "+strings.TrimPrefix(ty, "?")+"\nmethod M(a: A) -> ()\nerror Bad "+strings.TrimPrefix(ty, "?")+"\n")
		}
	}
	var kw strings.Builder
	for i, k := range append(append([]string{}, goKeywords...), generatorLocals...) {
		if k == "error" {
			continue
		}
		if i > 0 {
			kw.WriteString(", ")
		}
		kw.WriteString(k + ": int")
	}
	descs = append(descs,
		// one name shared by members of different kinds: rejected by the parser (then the generator just fails cleanly); were it ever accepted, the output would have to compile
		"interface a.b\ntype Status (a: int)\nmethod Status() -> (s: Status)\n",
		"interface a.b\nmethod Busy() -> ()\nerror Busy\n",
		"interface a.b\ntype Gone (a: int)\nmethod M() -> ()\nerror Gone (g: Gone)\n",
		"interface org.example.typeless\nmethod M() -> ()\nerror Plain\nerror WithArgs (a: int)\n",
		"interface org.example.with-dash.sub-x\nmethod M() -> ()\n",
		"interface Org.Example.UPPER\nmethod M() -> ()\n",
		// names whose last word is something the go tool reads as a file-name constraint (_test, _GOOS, _GOARCH): the
		// one file that is written must still be a non-test source of its package on this platform
		"interface org.example.disk-test\nmethod M() -> ()\n",
		"interface org.example.disk-windows\nmethod M() -> ()\n",
		"interface com.example.Emulator-arm64\nmethod M() -> ()\n",
		"interface org.example.run-linux-amd64\nmethod M() -> ()\n",
		"interface org.example.x-js.y-wasm\nmethod M() -> ()\n",
		"interface org.example.test\nmethod M() -> ()\n",
		"interface xn--lgbbat1ad8j.example.algeria\nmethod M() -> ()\n",
		"interface a.b\nmethod M("+kw.String()+") -> ("+kw.String()+")\nerror E2 ("+kw.String()+")\ntype K ("+kw.String()+")\n",
		"# doc with `backticks` and ``\ninterface a.b\n# `\nmethod M() -> ()\n",
		"interface a.b\r\n# doc\r\nmethod M(a: int) -> (b: string)\r\nerror E1 (x: int)\r\n",
		"# mentions fmt.Sprintf, json.RawMessage and context.Context\ninterface a.b\nmethod M() -> ()\n",
		// comment lines that would be build constraints / directives of the generated file if copied into line comments
		"# +build ignore\ninterface a.b\nmethod M() -> ()\n",
		"interface a.b\n\n# +build ignore\n# second line\nmethod M() -> ()\n\n#   +build windows\ntype T (a: int)\n\n#+build js\nerror E (a: int)\n",
		"# go:build ignore\n# +build */ ignore\ninterface a.b\n# go:generate rm -rf /\nmethod M() -> ()\n",
		"interface a.b\nmethod M() -> ()\n\n\n",
		// blanks that are not newlines at the very end: the run-time text may differ by trailing newlines only
		"interface a.b\nmethod M() -> ()\n  ",
		"interface a.b\nmethod M() -> () \t",
		"interface a.b\nmethod M() -> ()\n# closing remark \n",
		"interface a.b\r\nmethod M() -> ()\r\n\t\r\n",
		"interface a.b\nmethod Call(send: int) -> (upgrade: int)\nmethod Send() -> ()\nmethod Upgrade() -> ()\nmethod Reply() -> ()\n",
		"interface a.b\ntype String (s: string)\ntype Context (c: int)\ntype Json (j: object)\nmethod M(s: String, c: Context, j: Json) -> (o: object)\n",
	)
	shard, nshards := Shard()
	i := 0
	next := func() (C07Case, bool) {
		for i < len(descs) {
			k := i
			i++
			if k%nshards == shard {
				tree, _ := idl.New(strings.TrimRight(descs[k], "\n"))
				var own *Iface
				if tree != nil {
					own, _ = FromParser(tree)
				}
				return C07Case{Desc: descs[k], Tree: own, Origin: "matrix"}, true
			}
		}
		return C07Case{}, false
	}
	RunCases(t, propC07, "C07Matrix", true, next)
}

// blankTail: one description in four ends in blanks that are not newlines - after the last member, on a line of their
// own, or at the end of a closing comment ("up to trailing newlines" is all the run-time text may differ by).
func blankTail(t *rapid.T, desc, eol string) string {
	if rapid.IntRange(0, 3).Draw(t, "blanktail") != 0 {
		return desc
	}
	base := strings.TrimRight(desc, "\r\n")
	tail := rapid.SampledFrom([]string{" ", "\t", "  \t ", eol + "  ", eol + "\t", eol + "# closing remark ", eol + "# closing remark\t" + eol + " ", " " + eol + " " + eol + "\t"}).Draw(t, "blanktailkind")
	return base + tail + strings.Repeat(eol, rapid.IntRange(0, 1).Draw(t, "blanktailnl"))
}
