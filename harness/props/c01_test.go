package props

// C01 Per-call reply discipline on every connection.

import (
	"encoding/json"
	"fmt"
	"testing"

	"pgregory.net/rapid"
)

var c01IfacePool = []string{"com.example.a", "com.example.a.b", "org.verif.Test", "x.y", "org.varlink.servicex"}

func genIfaces(t *rapid.T) []string {
	n := rapid.IntRange(1, 3).Draw(t, "nifaces")
	perm := rapid.Permutation(c01IfacePool).Draw(t, "ifaces")
	return perm[:n]
}

func genParamsObj(t *rapid.T) json.RawMessage {
	if rapid.IntRange(0, 3).Draw(t, "noparams") == 0 {
		return nil
	}
	return json.RawMessage(DefaultJSON.Object(t, 1))
}

var scriptOps = []string{"reply", "reply", "reply-continues", "reply-continues", "error", "error-nodot", "error-reserved", "ifnotfound",
	"methodnotfound", "notimpl", "invalidparam", "yield", "fail"}

func genOp(t *rapid.T) Op {
	op := Op{}
	switch k := rapid.SampledFrom(scriptOps).Draw(t, "op"); k {
	case "reply":
		op = Op{Op: "reply", P: genParamsObj(t)}
	case "reply-continues":
		op = Op{Op: "reply", Continues: true, P: genParamsObj(t)}
	case "error":
		op = Op{Op: "error", Name: rapid.SampledFrom([]string{"com.example.a.Failed", "x.E", "a.b.c.d.E", "org.varlink.servicex.E", "org.varlink.service.x.E"}).Draw(t, "ename"), P: genParamsObj(t)}
	case "error-nodot":
		op = Op{Op: "error", Name: rapid.SampledFrom([]string{"Failed", "", ".E"}).Draw(t, "ename"), P: genParamsObj(t)}
	case "error-reserved":
		op = Op{Op: "error", Name: rapid.SampledFrom([]string{"org.varlink.service.InvalidParameter", "org.varlink.service.Custom"}).Draw(t, "ename"), P: genParamsObj(t)}
	case "ifnotfound", "methodnotfound", "notimpl", "invalidparam":
		op = Op{Op: k, S: rapid.SampledFrom([]string{"x", "", "a.b", "é\"\x00", "\x01\a\v\x1b\x7f", "\U000E0001\U0010FFFD", "<&>\u2028", "\\u003c%q"}).Draw(t, "s")}
	case "fail":
		op = Op{Op: "fail", S: rapid.SampledFrom(failKinds).Draw(t, "failkind")}
	default:
		op = Op{Op: k}
	}
	if (op.Op == "reply" || (op.Op == "error" && ErrorNameClass(op.Name) == "accept")) && rapid.IntRange(0, 11).Draw(t, "unencodable") == 0 {
		op.Go, op.P = rapid.SampledFrom(UnencodableKinds).Draw(t, "unencodablekind"), nil // parameters that cannot be encoded: refused, nothing written
	}
	if op.Op != "fail" && op.Op != "yield" && rapid.IntRange(0, 5).Draw(t, "ret") == 0 {
		op.Ret = true
	}
	return op
}

// genCall draws one call frame for connection conn.
func genCall(t *rapid.T, ifaces []string, conn, id int) []byte {
	more := rapid.IntRange(0, 2).Draw(t, "more") == 0
	oneway := rapid.IntRange(0, 3).Draw(t, "oneway") == 0
	upgrade := rapid.IntRange(0, 5).Draw(t, "upgrade") == 0
	switch rapid.IntRange(0, 9).Draw(t, "target") {
	case 0: // unknown interface
		return EncodeCall(rapid.SampledFrom([]string{"com.example.Unknown.M", "com.example.M", "org.varlink.M", "a.b"}).Draw(t, "m"), genParamsObj(t), more, oneway, upgrade)
	case 1: // no interface part
		return EncodeCall(rapid.SampledFrom([]string{"NoDots", "", ".Leading"}).Draw(t, "m"), genParamsObj(t), more, oneway, upgrade)
	case 2:
		return EncodeCall("org.varlink.service.GetInfo", genParamsObj(t), more, oneway, upgrade)
	case 3:
		var p []byte
		switch rapid.IntRange(0, 3).Draw(t, "descp") {
		case 0:
			p = jsonObj("interface", ifaces[0])
		case 1:
			p = jsonObj("interface", "no.such.interface")
		case 2:
			p = []byte(`{}`)
		}
		return EncodeCall("org.varlink.service.GetInterfaceDescription", p, more, oneway, upgrade)
	case 4:
		return EncodeCall("org.varlink.service."+rapid.SampledFrom([]string{"Nope", "getInfo", ""}).Draw(t, "m"), genParamsObj(t), more, oneway, upgrade)
	default:
		n := rapid.IntRange(0, 6).Draw(t, "nops")
		sp := ScriptParams{Conn: conn, ID: id}
		for i := 0; i < n; i++ {
			sp.Script = append(sp.Script, genOp(t))
		}
		if sp.Script == nil {
			sp.Script = []Op{}
		}
		if rapid.IntRange(0, 3).Draw(t, "pad") == 0 {
			sp.Pad = json.RawMessage(DefaultJSON.Value(t, 2))
		}
		b, _ := json.Marshal(sp)
		iface := rapid.SampledFrom(ifaces).Draw(t, "iface")
		meth := rapid.SampledFrom([]string{"M", "Ping", "", "x", "GetInfo"}).Draw(t, "meth")
		return EncodeCall(iface+"."+meth, b, more, oneway, upgrade)
	}
}

// genCuts draws a cut plan for a stream.
func genCuts(t *rapid.T, stream []byte) []int {
	switch rapid.IntRange(0, 5).Draw(t, "cutkind") {
	case 0:
		return nil // one write
	case 1:
		return []int{1} // one byte per write
	case 2: // cuts exactly after every NUL
		var cuts []int
		last := 0
		for i, b := range stream {
			if b == 0 {
				cuts = append(cuts, i+1-last)
				last = i + 1
			}
		}
		return append(cuts, 1<<30)
	case 3: // cuts just before every NUL
		var cuts []int
		last := 0
		for i, b := range stream {
			if b == 0 && i > last {
				cuts = append(cuts, i-last)
				last = i
			}
		}
		return append(cuts, 1<<30)
	case 4:
		return []int{rapid.IntRange(2, 40).Draw(t, "seg")}
	default:
		return rapid.SliceOfN(rapid.IntRange(1, 200), 1, 6).Draw(t, "segs")
	}
}

func genC01(t *rapid.T) ProtoCase {
	c := ProtoCase{Ifaces: genIfaces(t), Transport: "pipe", Origin: "C01"}
	if rapid.IntRange(0, 5).Draw(t, "unix") == 0 {
		c.Transport = "unix"
	}
	nconn := rapid.IntRange(1, 4).Draw(t, "nconn")
	for k := 0; k < nconn; k++ {
		cc := ConnCase{AbortAt: -1}
		ncalls := rapid.IntRange(1, 8).Draw(t, "ncalls")
		for i := 0; i < ncalls; i++ {
			cc.Frames = append(cc.Frames, genCall(t, c.Ifaces, k, i))
		}
		cc.Cuts = genCuts(t, cc.stream())
		if c.Transport == "unix" && rapid.IntRange(0, 2).Draw(t, "halfclose") == 0 {
			cc.AbortAt = len(cc.stream()) // half-close right after the last call; every call is still answered as scripted
		}
		c.Conns = append(c.Conns, cc)
	}
	if rapid.IntRange(0, 39).Draw(t, "stall") == 7 {
		// one more client pipelines calls with large replies and never reads: its connection stalls inside the service
		// while the other connections (and a probe connection) must be served as if it were not there
		c.Probe = true
		k := len(c.Conns)
		st := ConnCase{AbortAt: -1, NoRead: true}
		for i := 0; i < 3; i++ {
			if rapid.Bool().Draw(t, "stallkind") {
				st.Frames = append(st.Frames, EncodeCall("org.varlink.service.GetInfo", nil, false, false, false))
			} else {
				sp := ScriptParams{Conn: k, ID: i, Script: []Op{{Op: "reply", P: json.RawMessage(`{"big":` + BigString(70000) + `}`)}}}
				b, _ := json.Marshal(sp)
				st.Frames = append(st.Frames, EncodeCall(c.Ifaces[0]+".Big", b, false, false, false))
			}
		}
		if c.Transport == "unix" {
			// a kernel socket buffers a few hundred KB: make sure the replies exceed it
			for i := 0; i < 40; i++ {
				st.Frames = append(st.Frames, EncodeCall("org.varlink.service.GetInterfaceDescription", jsonObj("interface", "org.varlink.service"), false, false, false))
			}
			sp := ScriptParams{Conn: k, ID: 99, Script: []Op{{Op: "reply", P: json.RawMessage(`{"big":` + BigString(2000000) + `}`)}}}
			b, _ := json.Marshal(sp)
			st.Frames = append([]Blob{EncodeCall(c.Ifaces[0]+".Big", b, false, false, false)}, st.Frames...)
		}
		c.Conns = append(c.Conns, st)
	}
	return c
}

func checkC01(c ProtoCase, st *Stats) error {
	out, err := ExecProto(c, protoBound)
	nt := false
	var labels []string
	labels = append(labels, "transport:"+c.Transport, fmt.Sprintf("conns:%d", len(c.Conns)))
	for _, cc := range c.Conns {
		if cc.NoRead {
			labels = append(labels, "has:stalled-never-reading-client")
		}
	}
	if out != nil {
		for k, cc := range c.Conns {
			if len(cc.Frames) < 2 || k >= len(out.ExpInvs) {
				continue
			}
			oneway, moreCont, refused, byErr := false, false, false, false
			for _, f := range cc.Frames {
				var wc wireCall
				if json.Unmarshal(f, &wc) == nil && wc.Oneway {
					oneway = true
				}
			}
			for _, f := range out.ExpFrames[k] {
				if f.Continues {
					moreCont = true
				}
			}
			for _, iv := range out.ExpInvs[k] {
				for _, ok := range iv.Results {
					if !ok {
						refused = true
					}
				}
				if iv.RetErr {
					byErr = true
				}
			}
			if oneway || moreCont || refused || byErr {
				nt = true
			}
			if oneway {
				labels = append(labels, "has:oneway")
			}
			if moreCont {
				labels = append(labels, "has:continues")
			}
			if refused {
				labels = append(labels, "has:refused")
			}
			if byErr {
				labels = append(labels, "has:handler-error")
			}
		}
	}
	st.Case(HashOf(c), nt, func() interface{} { return c }, labels...)
	return err
}

var propC01 = Register(Prop[ProtoCase]{ID: "C01", Name: "C01", Pending: true, Check: checkC01})

func TestC01Rapid(t *testing.T) {
	p := propC01
	p.Gen = genC01
	RunRapid(t, p, "C01Rapid")
}

// TestC01Enum: the exhaustive product {8 flag sets} x {all scripts of length <= 2 over 9
// actions (<= 3 in the thorough tier)} x {3 cut plans} on one connection.
func TestC01Enum(t *testing.T) {
	acts := []Op{
		{Op: "reply", P: json.RawMessage(`{"k":1}`)},
		{Op: "reply", Continues: true, P: json.RawMessage(`{"k":2}`)},
		{Op: "reply", Continues: true, Ret: true},
		{Op: "error", Name: "x.y.E", P: json.RawMessage(`{"why":"z"}`)},
		{Op: "error", Name: "NoDot"},
		{Op: "error", Name: "org.varlink.service.X", Ret: true},
		{Op: "invalidparam", S: "p"},
		{Op: "notimpl", S: "M"},
		{Op: "fail"},
		{Op: "fail", S: "net-timeout"},
	}
	maxLen := 2
	if Thorough() {
		maxLen = 3
	}
	var scripts [][]Op
	var rec func(cur []Op)
	rec = func(cur []Op) {
		scripts = append(scripts, append([]Op(nil), cur...))
		if len(cur) == maxLen {
			return
		}
		for _, a := range acts {
			rec(append(cur, a))
		}
	}
	rec(nil)
	shard, nshards := Shard()
	cutPlans := [][]int{nil, {1}, {7}}
	i := 0
	total := len(scripts) * 8 * len(cutPlans)
	next := func() (ProtoCase, bool) {
		for i < total {
			k := i
			i++
			if k%nshards != shard {
				continue
			}
			sc := scripts[k/(8*len(cutPlans))]
			fl := (k / len(cutPlans)) % 8
			cp := cutPlans[k%len(cutPlans)]
			sp := ScriptParams{Conn: 0, ID: 1, Script: sc}
			if sp.Script == nil {
				sp.Script = []Op{}
			}
			b, _ := json.Marshal(sp)
			first := EncodeCall("x.y.M", b, fl&1 != 0, fl&2 != 0, fl&4 != 0)
			sp2 := ScriptParams{Conn: 0, ID: 2, Script: []Op{{Op: "reply", P: json.RawMessage(`{"second":true}`)}}}
			b2, _ := json.Marshal(sp2)
			second := EncodeCall("x.y.N", b2, false, false, false)
			cc := ConnCase{Frames: []Blob{first, second}, Cuts: cp, AbortAt: -1}
			return ProtoCase{Ifaces: []string{"x.y"}, Conns: []ConnCase{cc}, Transport: "pipe", Origin: "C01Enum"}, true
		}
		return ProtoCase{}, false
	}
	RunCases(t, propC01, "C01Enum", true, next)
}

// TestC01Crosstalk: "none of this is affected by traffic on other connections" with replies that take long enough to write
// for the writes of different connections to overlap: 8-32 connections, three calls each, every reply a large document
// naming its connection and call; in half of the cases every connection first has a reply attempt refused (parameters
// that cannot be encoded). Each connection must receive exactly its own replies, in order.
func TestC01Crosstalk(t *testing.T) {
	cfgs := []concCfg{{"pipe", 16, 120000}, {"unix", 8, 600000}, {"unix", 32, 250000}, {"pipe", 8, 300000}}
	if Thorough() {
		cfgs = append(cfgs, concCfg{"unix", 64, 500000}, concCfg{"pipe", 32, 400000}, concCfg{"unix", 12, 2000000})
	}
	shard, nshards := Shard()
	i := 0
	next := func() (ProtoCase, bool) {
		for i < len(cfgs)*2 {
			k := i
			i++
			if k%nshards != shard {
				continue
			}
			return concurrentBigCase(cfgs[k%len(cfgs)], k < len(cfgs), "C01Crosstalk"), true
		}
		return ProtoCase{}, false
	}
	p := propC01
	p.Check = func(c ProtoCase, st *Stats) error {
		_, err := ExecProto(c, 3*protoBound)
		st.Case(HashOf(len(c.Conns)*1000003+len(c.Conns[0].Frames[0])), true, nil, "crosstalk-big-replies", "transport:"+c.Transport)
		return err
	}
	RunCases(t, p, "C01Crosstalk", true, next)
}
