module verif

go 1.23

require (
	github.com/varlink/go v0.0.0
	pgregory.net/rapid v1.3.0
)

replace github.com/varlink/go => /repo
