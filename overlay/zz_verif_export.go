//go:build verif

package varlink

import (
	"net"
	"reflect"
	"strings"

	"github.com/varlink/go/varlink/internal/ctxio"
)

// VerifSetListener installs l as if Bind had created it (white-box hook used only by /verif).
func (s *Service) VerifSetListener(l net.Listener) {
	s.mutex.Lock()
	s.listener = l
	s.mutex.Unlock()
}

// VerifActiveConnections returns the number of connections currently being handled: the counter field, or - when a
// change to the library has replaced the counter by a collection of the open connections - the size of that
// collection. -1 means the accounting could not be located (the harness then reports "inconclusive", not a violation).
func (s *Service) VerifActiveConnections() int64 {
	s.mutex.Lock()
	defer s.mutex.Unlock()
	v := reflect.ValueOf(s).Elem()
	if f := v.FieldByName("conncounter"); f.IsValid() {
		switch f.Kind() {
		case reflect.Int, reflect.Int32, reflect.Int64:
			return f.Int()
		case reflect.Uint, reflect.Uint32, reflect.Uint64:
			return int64(f.Uint())
		}
	}
	n, found := int64(0), false
	for i := 0; i < v.NumField(); i++ {
		name := strings.ToLower(v.Type().Field(i).Name)
		f := v.Field(i)
		if strings.Contains(name, "conn") && (f.Kind() == reflect.Map || f.Kind() == reflect.Slice) {
			n += int64(f.Len())
			found = true
		}
	}
	if found {
		return n
	}
	return -1
}

// VerifNewConnection wraps an already established net.Conn exactly as NewConnection does after dialling.
func VerifNewConnection(c net.Conn) *Connection {
	return &Connection{conn: ctxio.NewConn(c)}
}
