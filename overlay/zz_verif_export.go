//go:build verif

package varlink

import (
	"net"

	"github.com/varlink/go/varlink/internal/ctxio"
)

// VerifSetListener installs l as if Bind had created it (white-box hook used only by /verif).
func (s *Service) VerifSetListener(l net.Listener) {
	s.mutex.Lock()
	s.listener = l
	s.mutex.Unlock()
}

// VerifActiveConnections returns the number of connections currently being handled.
func (s *Service) VerifActiveConnections() int64 {
	s.mutex.Lock()
	n := s.conncounter
	s.mutex.Unlock()
	return n
}

// VerifNewConnection wraps an already established net.Conn exactly as NewConnection does after dialling.
func VerifNewConnection(c net.Conn) *Connection {
	return &Connection{conn: ctxio.NewConn(c)}
}
