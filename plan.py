"""Per-property job plans, levels, non-triviality rules and assumptions (used by ./check)."""


def shards(test, n, checks=None, **kw):
    out = []
    for i in range(n):
        j = dict(test=test, shard=i, nshards=n, **kw)
        if checks is not None:
            j["checks"] = checks
        out.append(j)
    return out


SELF_IDL = dict(test="TestSelfIDL", checks=2000)

PLAN = {
    "C01": dict(
        quick=[dict(test="TestC01Rapid", checks=3000), *shards("TestC01Enum", 4), dict(test="TestC01Crosstalk")],
        thorough=[*shards("TestC01Rapid", 12, checks=20000), *shards("TestC01Enum", 4), *shards("TestC01Crosstalk", 2), dict(test="TestC01Crosstalk", env={"GOMAXPROCS": "2"}), dict(fuzz="FuzzC01Rapid", seconds=60)],
    ),
    "C03": dict(
        quick=[dict(test="TestC03Rapid", checks=1200), *shards("TestC03Matrix", 4)],
        thorough=[*shards("TestC03Rapid", 12, checks=4000), *shards("TestC03Matrix", 4)],
    ),
    "C12": dict(
        quick=[dict(test="TestC12Rapid", checks=3000), *shards("TestC12Names", 4)],
        thorough=[*shards("TestC12Rapid", 12, checks=6000), *shards("TestC12Names", 4)],
    ),
    "C04": dict(
        quick=[dict(test="TestC04Rapid", checks=4000), *shards("TestC04Enum", 4)],
        thorough=[*shards("TestC04Rapid", 12, checks=40000), *shards("TestC04Enum", 4), dict(fuzz="FuzzC04Rapid", seconds=60)],
    ),
    "C10": dict(
        quick=[dict(test="TestC10Rapid", checks=1500), *shards("TestC10Aborts", 6), *shards("TestC10ManyConns", 2), dict(test="TestC10Vanished")],
        thorough=[*shards("TestC10Rapid", 12, checks=20000), *shards("TestC10Aborts", 4), *shards("TestC10ManyConns", 4), dict(test="TestC10Vanished"), dict(fuzz="FuzzC10", seconds=120)],
    ),
    "C05": dict(
        quick=[SELF_IDL, dict(test="TestC05Rapid", checks=20000), *shards("TestC05Enum", 4)],
        thorough=[SELF_IDL, *shards("TestC05Rapid", 12, checks=200000), *shards("TestC05Enum", 16), dict(fuzz="FuzzC05Rapid", seconds=60)],
    ),
    "C06": dict(
        quick=[SELF_IDL, dict(test="TestC06Rapid", checks=20000), *shards("TestC06Mutants", 6), *shards("TestC06Seqs", 4), *shards("TestC06Bytes", 2), dict(test="TestC06LongNames")],
        thorough=[SELF_IDL, *shards("TestC06Rapid", 8, checks=200000), *shards("TestC06Mutants", 16), *shards("TestC06Seqs", 8), *shards("TestC06Bytes", 2), dict(test="TestC06LongNames"),
                  dict(fuzz="FuzzC06", seconds=120)],
    ),
    "C09": dict(
        quick=[dict(test="TestC09Rapid", checks=30000), *shards("TestC09Trunc", 4), dict(test="TestC09Bytes")],
        thorough=[*shards("TestC09Rapid", 8, checks=200000), *shards("TestC09Trunc", 16), dict(test="TestC09Bytes"),
                  dict(fuzz="FuzzC09", seconds=180)],
    ),
}

LEVEL = {
    "C01": "exploration",
    "C04": "exploration",
    "C10": "fault_enumeration",
    "C05": "exploration",
    "C06": "exploration",
    "C09": "exploration",
}

RULE = {
    "C01": "case = service with 1-3 scripted interfaces and 1-4 concurrent connections, each sending 1-8 calls (targets: scripted interface, "
           "unknown interface, no interface part, GetInfo, GetInterfaceDescription valid/unknown/missing, unknown built-in method; any subset of "
           "more/oneway/upgrade; handler scripts of 0-6 actions: reply, continues-reply, error reply valid/no-dot/reserved, the four built-in "
           "error helpers, yield, fail, return-this-result) under a cut plan (one write, byte-at-a-time, at/before NULs, fixed, random); 90% "
           "fake listener + net.Pipe, 10% abstract unix socket. Plus the exhaustive product 8 flag sets x all scripts of length <=2 (<=3 "
           "thorough) over 9 actions x 3 cut plans. Oracle: per-connection reference model (frames, handler results, dispatch order, "
           "connection fate). Non-trivial = a connection with >=2 calls containing a oneway call, an emitted continues-reply, a refused "
           "attempt, or a handler error; distinct by case hash.",
    "C04": "case = one connection to a service with 0-5 registered interface names (dotted names, extensions/prefixes of one another, near "
           "misses of org.varlink.service, names with leading/trailing/double dots, unicode) sending 1-10 calls whose method strings are derived "
           "from the registered names by structural edits (drop/duplicate/move a dot, leading/trailing dot, extra label, case change, rune "
           "insert/delete, interface name alone) or are arbitrary; 10% wrong-shape frames (method absent/null/non-string, non-object, trailing "
           "garbage); plus the exhaustive set of all strings of length <=5 (6 thorough) over {a,b,.} against all 16 subsets of a 4-name registry. "
           "Oracle: Route model (split at the last dot) -> exactly one dispatcher log entry with exactly the method part, or exactly one "
           "InterfaceNotFound / InvalidParameter(method) / MethodNotFound frame carrying the predicted string; a sentinel GetInfo proves the "
           "connection stayed usable. Non-trivial = a method string with >=2 dots, an empty part, or a one-edit near miss of a registered name.",
    "C10": "case = a client byte stream of 1-7 frames (valid calls incl. more-sequences and replies up to 300 KB, byte-level mutants: truncate/flip/"
           "delete/insert/trailing+leading garbage/duplicate/wrap, hostile constants such as null / {} / a call followed by '}', wrong-shape JSON, "
           "random bytes, NUL inside a frame, unterminated tail) under a cut plan, with a client abort at a random offset / around a NUL / never "
           "reading, on the fake listener + pipe or an abstract unix socket (half-close and read to EOF), ended by Shutdown or by an injected "
           "accept-timeout expiry, with a probe connection doing GetInfo before/during/after. Plus a client abort at EVERY byte offset of 5 (7) "
           "fixed streams. Oracle: reference model over the complete frames of the sent prefix (dispatch log, replies, no reply + EOF for the first "
           "undecodable frame), active-connection count back to its prior value, serving ends with nil / ServiceTimeoutError, no library goroutine "
           "left, process alive (case recorded before execution). Non-trivial = >=1 complete call followed by a malformed or truncated frame, or an "
           "abort strictly inside a frame, or a client that never reads.",
    "C05": "trees: bounded-exhaustive (interfaces of 1-2 members over all struct/enum types of <=3 constructor nodes, <=2 fields) "
           "x 5 fixed layouts (compact, spaced, commented, CRLF, empty-comment) x rotating doc modes; plus rapid-generated trees "
           "(<=30 members, depth <=6) printed with a random string in every gap (spaces, tabs, CR, LF, CRLF, comments incl. empty "
           "and no-space ones, final line without newline). Oracle: FromParser(idl.New(text)) == tree, Description verbatim, doc "
           "lines. Non-trivial = >=2 members, >=1 nested constructor, and the text has a comment / tab / CR / blank line; "
           "distinct by text hash.",
    "C06": "inputs: every single-token deletion/insertion/substitution/transposition of enumerated descriptions (compact and "
           "commented layouts), all token sequences up to the length bound over a 16-token alphabet after two valid headers, "
           "rapid multi-edit + character-level mutants, valid descriptions, valid+trailing material, token soups; thorough adds "
           "coverage-guided fuzzing. Oracle: accept side = re-print(tree) == input up to whitespace/comments, unique members, "
           ">=1 method, no ??, lists all-typed or all-bare, Description verbatim; reject side = IDLLiberal (most liberal "
           "recogniser) rejects => parser must reject with nil tree. Non-trivial = one-token-off mutant rejected by IDLLiberal, "
           "or an accepted input with a comment or >=2 members; distinct by content hash. labels give the 2x2 table.",
    "C09": "rapid: random bytes (incl. NUL / invalid UTF-8), header+bytes, token soups, truncations of random valid "
           "descriptions under random layouts, multi-edit mutants, pathological nesting up to 60 KB, comments ending at "
           "end of input; enumeration: every byte-offset truncation of every bounded-exhaustive description under 4 fixed "
           "layouts; thorough adds coverage-guided fuzzing. Non-trivial = strict prefix of a valid description, or "
           "contains a byte outside the grammar's alphabet; distinct by content hash.",
}

ASSUME = {
    "C01": ["interleavings of the N connections are sampled by the Go scheduler, not enumerated; the oracle is per connection so every interleaving is legal",
            "a hang is a connection that shows neither EOF nor the expected replies within 10 s (30 s on the confirming retry)"],
    "C04": ["wire frames are decoded by the model with encoding/json mirror structs (same library as the implementation, own types)"],
    "C10": ["on the in-memory transport the service end is wrapped so that arming a deadline after the peer closed is not an error (as on kernel sockets)",
            "a crash of the test process is attributed to the library only when the panicking goroutine's stack contains library frames",
            "hang = no EOF / no return within 10 s (30 s on the confirming retry)"],
    "C05": ["the grammar is the published varlink grammar intersected with what this repository's tests declare valid",
            "no whitespace is generated inside '[]', '[string]', '->', after '?' or ']', and only spaces/tabs between an error's name and its parameters",
            "doc strings are compared line-wise modulo surrounding blanks, only for a canonical block directly above the member"],
    "C06": ["IDLLiberal (own recogniser, self-checked each run) accepts a superset of what any correct parser may accept",
            "inputs whose comments contain a lone CR / U+2028 / U+2029 are don't-care for the re-print comparison"],
    "C09": ["a hang is a run longer than 10 s (30 s on the confirming retry) for inputs ≤ 64 KiB",
            "Go's recover() sees every panic of the parser (it starts no goroutines)"],
}


# What MANIFEST.json claims per property (tools/mkmanifest.py).
CLAIM = {
    "C01": dict(
        text="Model-based property test: generated call sequences x handler scripts x segmentations x concurrent connections are run against the "
             "real accept loop (fake listener + net.Pipe, and abstract unix sockets) and every byte read plus the handler invocation log is "
             "compared with a reference model of the reply discipline; a finite slice (flags x short scripts x cut plans) is enumerated exhaustively.",
        ref="DESIGN.md section 4, C01", technique="model-based property testing (rapid) with a per-connection reference model; bounded-exhaustive slice; coverage-guided fuzzing of the generator's draw stream (rapid.MakeFuzz, thorough tier)",
        note="white-box accessors injected by -overlay (install listener, read active count); connection interleavings are scheduler-sampled"),
    "C04": dict(
        text="Model-based property test of routing: generated registries x generated method strings (structural edits of registered names, "
             "arbitrary strings, wrong-shape frames) against a routing model, observing the reply frames and which scripted dispatcher logged "
             "which method name; all strings up to length 5 over {a,b,.} x all subsets of a 4-name registry enumerated exhaustively.",
        ref="DESIGN.md section 4, C04", technique="model-based property testing (rapid) + bounded-exhaustive enumeration; reference router as oracle; coverage-guided fuzzing of the generator's draw stream (rapid.MakeFuzz, thorough tier)",
        note="uses the shared protocol executor and reference model of C01"),
    "C10": dict(
        text="Fault enumeration by generated streams: mutated / wrong-shape / random client byte streams with an abort at generated offsets "
             "(and at every byte offset of fixed streams), checked against the reference model for dispatch/no-reply/close, release of the "
             "connection (count, Shutdown and idle-timeout both end serving), goroutine census, probe connection, process survival; "
             "coverage-guided fuzzing of the stream in the thorough tier.",
        ref="DESIGN.md section 4, C10", technique="fuzzing + property-based testing (rapid) with abort-offset enumeration; reference model + resource-release invariants as oracle",
        note="a crash is caught through a pending-case file written before each execution"),
    "C05": dict(
        text="Generated-input search with a round-trip oracle: every tree of a bounded-exhaustive space and tens of thousands of random "
             "trees are printed under fixed and random layouts and must parse back to exactly that tree (order, names, constructors, "
             "combined member list, verbatim description, doc blocks). Exploration, not proof: held on everything generated.",
        ref="DESIGN.md section 4, C05", technique="property-based testing (rapid) + bounded-exhaustive enumeration; round-trip oracle tree -> text -> tree; coverage-guided fuzzing of the generator's draw stream (rapid.MakeFuzz, thorough tier)",
        note="trusts the harness's own AST/printer (self-checked each run) and the grammar reading stated in DESIGN.md (published grammar intersected with the repository's tests)"),
    "C06": dict(
        text="Two-sided oracle over generated strings: everything the parser accepts must re-print to the input up to whitespace/comments and "
             "satisfy the structural invariants; everything an independent most-liberal recogniser rejects must be rejected with nil tree. "
             "All single-token mutants of the enumerated descriptions and all short token sequences are enumerated exhaustively; random mutants and fuzzing beyond.",
        ref="DESIGN.md section 4, C06", technique="property-based testing + bounded-exhaustive mutation + coverage-guided fuzzing; re-print (inverse) oracle and reference recogniser",
        note="trusts IDLLiberal/IDLNormalise/PrintCompact in the harness (self-checked each run against hand-written ill-formed and well-formed texts)"),
    "C09": dict(
        text="Totality checked on millions of generated inputs under recover() and a watchdog: every truncation of the enumerated descriptions, "
             "random bytes, token soups, deep nesting to 60 KB, and coverage-guided fuzzing in the thorough tier.",
        ref="DESIGN.md section 4, C09", technique="fuzzing (rapid generators, exhaustive truncation, native go fuzz) with a crash/hang/result-shape oracle",
        note="a hang is defined by a 10 s bound (30 s on the confirming retry)"),
}


# ---- C03 / C12 ---------------------------------------------------------------------------------
LEVEL.update({"C03": "exploration", "C12": "exploration"})
RULE.update({
    "C03": "case = a client session of 1-6 steps (Connection.Call / Send+receive / Upgrade; plain, more with k=0..6 (sometimes 20-60, thorough "
           "100-500) continues-replies, oneway, upgrade) against a real Service with a scripted dispatcher, on one of the five transports "
           "(in-memory pipe via a white-box constructor, filesystem unix socket, abstract unix socket, TCP 127.0.0.1, bridge subprocess); call "
           "and reply parameters are generated JSON objects as text (integers beyond 2^53, exponents, -0, 0.10, null members, escapes, NUL, "
           "non-BMP, documents around the 4096-byte buffer, 64 KB, wide, deep; thorough up to 3 MiB), passed either as json.RawMessage or as a "
           "decoded Go value with json.Number leaves. Plus the full matrix 5 transports x 5 APIs x 7 hard documents. Oracle: what the handler reads "
           "through Call.GetParameters and what every receive yields must be JSON-equal (own comparer: numbers digit for digit) to what was passed; "
           "Continues on all replies but the last; errors as typed values. Non-trivial = a document with a number not representable as float64 or "
           "an escaped/non-ASCII string, or >= 2 continues-replies.",
    "C12": "case = client sessions as in C03 with error replies in most scripts: error names drawn from ordinary names, every near miss of the "
           "reserved namespace (prefix/suffix/case/space/sub-namespace variants) x standard and custom last parts, names without an interface part, "
           "dots in odd places, arbitrary unicode, very long names; parameters none / {} / generated objects; the four built-in helpers with "
           "arbitrary strings; plain, more and oneway calls; mostly the in-memory transport, 25% the others. Plus a systematic list of ~170 names x 4 "
           "parameter shapes x plain/more. Oracle: three-way model (must accept -> exact name and JSON-equal parameters in a *varlink.Error or the "
           "dedicated typed error; must refuse -> error returned to the handler and no frame; empty <Name> -> either, consistently). Non-trivial = "
           "a name with >= 2 dots or near the reserved namespace, non-empty parameters, or a built-in helper.",
})
ASSUME.update({
    "C03": ["the in-memory transport constructs the Connection through an overlay accessor that mirrors NewConnection after dialling",
            "the bridge command is this test binary in relay mode (stdin/stdout <-> unix socket)",
            "JSON equality: objects as member sets, strings code point by code point, numbers by literal digits; duplicate keys are not generated"],
    "C12": ["error names with an empty <Name> part ('x.', 'org.varlink.service.') are don't-care: sent or refused, but consistently",
            "absent parameters and JSON null are the same thing on the client side"],
})
CLAIM.update({
    "C03": dict(
        text="Round-trip property test through the real client and the real service on all five transports: generated JSON objects as call and "
             "reply parameters (hard numbers, escapes, sizes across the buffer boundary up to MiB), more-sequences of generated length, three client "
             "APIs; values seen by the handler and returned by receive are compared with an independent JSON equality. The finite transport x API x "
             "hard-document matrix is enumerated completely.",
        ref="DESIGN.md section 4, C03", technique="property-based testing (rapid) with a round-trip oracle (value -> wire -> value); bounded-exhaustive transport/API matrix",
        note="bridge transport = NewBridge with this test binary as relay helper"),
    "C12": dict(
        text="Model-based property test of error replies end to end: generated error names (systematic near misses of the reserved namespace, odd "
             "dot placements, unicode) and parameters sent by the handler through ReplyError and the four built-in helpers, read back through the real "
             "client; accept/refuse/don't-care model decides what must arrive and what the handler must be told.",
        ref="DESIGN.md section 4, C12", technique="model-based property testing (rapid) + systematic name list; three-way reference classifier and round-trip oracle",
        note="shares the end-to-end executor with C03"),
})

PLAN["C02"] = dict(
    quick=[dict(test="TestC02Rapid", checks=500), dict(test="TestC02Service", checks=600), dict(test="TestC02Pipeline", checks=1500), *shards("TestC02EveryCut", 4),
           dict(test="TestC02Concurrent"), dict(test="TestC02Concurrent", shard=0, nshards=2, env={"GOMAXPROCS": "1"}), dict(test="TestC02BigClose")],
    thorough=[*shards("TestC02Rapid", 8, checks=2500), *shards("TestC02Service", 6, checks=3000), *shards("TestC02Pipeline", 4, checks=20000), *shards("TestC02EveryCut", 4),
              dict(test="TestC02Concurrent"), dict(test="TestC02Concurrent", env={"GOMAXPROCS": "1"}), dict(test="TestC02Concurrent", env={"GOMAXPROCS": "4"}),
              *shards("TestC02BigClose", 4)],
)

PLAN["C11"] = dict(
    quick=[dict(test="TestC11Rapid", checks=4000), *shards("TestC11Enum", 4)],
    thorough=[*shards("TestC11Rapid", 12, checks=30000), *shards("TestC11Enum", 4), dict(fuzz="FuzzC11", seconds=120)],
)

LEVEL.update({"C02": "exploration", "C11": "fault_enumeration"})
RULE.update({
    "C02": "case = (a)+(b client side) a client session as in C03 (documents with NUL/quotes/controls/non-BMP strings, sizes around the 4096-byte "
           "reader buffer, 64 KB, wide, deep; thorough MiB) through a recording proxy on the in-memory transport that re-cuts both directions (1 byte, "
           "2-9 bytes, 4095/4096/4097, lists of sizes) and optionally holds all reply frames of a call and delivers them in one piece; (b service side) "
           "1-6 calls with such documents written by a raw client under a cut plan (also over an abstract unix socket); plus EVERY two-segment "
           "partition of a fixed 4-call request stream and of its reply stream. Oracle: every captured direction splits at NUL into valid JSON objects "
           "only, ending with a NUL; and under every segmentation both sides recover the model's message sequence (handler log, receive results). "
           "Non-trivial = some direction re-cut, several frames in one delivery, a frame over 4096 bytes, or hard strings.",
    "C11": "case = one client Send (flags from all 16 words, generated method/parameters) against a scripted raw server that drains the request "
           "and plays a generated reply stream of 0-5 frames (valid replies and continues chains, error frames incl. the four standard names with "
           "matching/mismatching parameters, ~45 wrong-shape/ill-formed constants such as a reply followed by '}' or by a second object, byte-level "
           "mutants, random bytes, unterminated tail) under a cut plan, dying at a generated offset; the client calls receive once per frame plus once "
           "more. Plus: all 16 flag words x {nil, object} x {pipe, unix} exhaustively, every constant alone and before a valid frame, and a server "
           "abort at EVERY byte offset of three reply streams. Oracle: model of the stream (frame i decodes as reply -> exact parameters and Continues; "
           "error frame -> *Error with exact name/parameters or the typed error; not a reply -> error; stream ended -> io.ErrUnexpectedEOF; forbidden "
           "flags -> Send fails and the server's first bytes are a later sentinel frame; request frame = exactly the requested method/parameters/flags). "
           "Non-trivial = EOF inside a frame, valid JSON of the wrong shape, an error frame, or a forbidden flag word.",
})
ASSUME.update({
    "C02": ["pauses between segments are represented by the rendezvous semantics of net.Pipe (each write is delivered alone) and by kernel sockets in the raw-client arm"],
    "C11": ["on a kernel socket a reset instead of EOF is tolerated when the peer vanished; the exact io.ErrUnexpectedEOF is required on the in-memory transport and whenever the error wraps io.EOF",
            "for the four standard error names both the typed error and the generic *Error with exact name and parameters are accepted",
            "the client end of the in-memory transport is wrapped so that arming a deadline after the peer closed is not an error (as on kernel sockets)"],
})
CLAIM.update({
    "C02": dict(
        text="Framing checked from both ends: a recording, re-segmenting proxy between real client and real service captures every byte (validity "
             "predicate: NUL-separated valid JSON objects, nothing else) and re-cuts/coalesces both directions (metamorphic: same bytes, other "
             "segmentation, same messages as the reference model); a raw client drives the service reader; all two-segment partitions of fixed streams enumerated.",
        ref="DESIGN.md section 4, C02", technique="property-based testing (rapid) with a validity predicate on captured bytes and a metamorphic segmentation relation; bounded-exhaustive cut positions",
        note="shares executors with C01/C03"),
    "C11": dict(
        text="Fault enumeration against a scripted raw server: generated/mutated reply streams, every abort offset of fixed streams, all flag words; "
             "receive results compared with a stream model; request frames decoded and compared with what was requested; coverage-guided fuzzing in the thorough tier.",
        ref="DESIGN.md section 4, C11", technique="fuzzing + property-based testing (rapid) with abort-offset and flag-word enumeration; reference stream model as oracle",
        note="client constructed on a net.Pipe through the overlay accessor, or NewConnection to an abstract unix socket"),
})

PLAN["C13"] = dict(
    quick=[dict(test="TestC13Rapid", checks=800), dict(test="TestC13Resolver", checks=400)],
    thorough=[*shards("TestC13Rapid", 12, checks=5000), *shards("TestC13Resolver", 4, checks=3000), dict(fuzz="FuzzC13Rapid", seconds=60)],
)

LEVEL.update({"C13": "exploration"})
RULE.update({
    "C13": "case = a service created with four generated identity strings (any valid UTF-8 incl. empty, NUL, quotes, non-BMP) and a generated "
           "history of 3-25 operations over {register fresh name with generated description (empty, unicode, up to 64 KB; odd names: dots, unicode, "
           "near misses), register a name twice (own or org.varlink.service), listen (fake listener + DoListen, or Listen on an abstract unix socket), "
           "register while listening, query, shutdown, listen again}; every history ends with listen + query. Model = ordered name list starting with "
           "org.varlink.service + description map. Each query uses the client helpers: GetInfo (identity, names in order, each once; also with nil "
           "out-pointers), GetInterfaceDescription for every listed name (text unchanged) and for unlisted names (empty, near misses, names refused or "
           "registered later) -> *InvalidParameter{interface}. Second generator: a scripted org.varlink.resolver with generated identity and table; "
           "Resolver.GetInfo / Resolve must return its answers field for field, Resolve(org.varlink.resolver) the resolver's own address. "
           "Non-trivial = >=3 successful registrations, >=1 refused one, >=1 shutdown and >=1 query.",
})
ASSUME.update({
    "C13": ["the empty interface name is not registered (no caller does; the description lookup treats it as missing)",
            "the built-in interface's description is compared with its own first reading and must describe org.varlink.service"],
})
CLAIM.update({
    "C13": dict(
        text="Stateful model-based test: generated register/duplicate/listen/register-while-listening/query/shutdown/re-listen histories on one "
             "Service object, compared after every query with a model of the registry through the real client helpers; generated resolver tables "
             "through the Resolver helpers.",
        ref="DESIGN.md section 4, C13", technique="stateful model-based property testing (rapid-generated operation histories, model = ordered registry); coverage-guided fuzzing of the history generator's draw stream (rapid.MakeFuzz, thorough tier)",
        note="histories are generated as explicit operation lists so that each case is a serialisable, replayable value"),
})

PLAN["C18"] = dict(
    quick=[dict(test="TestC18Rapid", checks=3000), *shards("TestC18Enum", 4), dict(test="TestC18Twins", checks=600), dict(test="TestC18TwinsFixed")],
    thorough=[*shards("TestC18Rapid", 12, checks=30000), *shards("TestC18Enum", 4), *shards("TestC18Twins", 6, checks=6000), dict(test="TestC18TwinsFixed"), dict(fuzz="FuzzC18", seconds=60)],
)

LEVEL.update({"C18": "exploration"})
RULE.update({
    "C18": "case = an upgraded exchange, handler side (raw client -> real service, handler consumes Call.Conn) or client side (real client's Upgrade "
           "-> scripted raw server, test consumes the returned connection), on the in-memory transport or an abstract unix socket: after the request "
           "(reply) frame the peer sends 0-3 further NUL-terminated frames and a payload of 0-10000 arbitrary bytes, under a cut plan that in half of "
           "the cases puts the frame and everything after it into ONE segment (also 1-byte, 4095/4096/4097, random cuts); the consumer runs 1-12 "
           "operations ReadBytes(0) / Read(n), n in {1,2,100,4095,4096,4097,10000}, then drains to EOF; optionally it first writes raw bytes back. "
           "Plus the exhaustive product 2 sides x 2 transports x 4 cut plans x all consumer sequences of length <=3 over {ReadBytes, Read(1), "
           "Read(5000)}. Oracle: cursor over the peer's stream - ReadBytes returns exactly up to the next delimiter, Read a non-empty prefix of "
           "what follows, the drain exactly the rest; raw bytes written back arrive right after the reply (request) frame. Non-trivial = a raw Read "
           "directly after a frame read while the segment carried later bytes.",
})
ASSUME.update({"C18": ["hang = no return within 10 s (30 s on retry)", "the in-memory transport is wrapped to accept deadlines after the peer closed, like a kernel socket"]})
CLAIM.update({
    "C18": dict(
        text="Model-based property test of mixed frame/raw reads: generated byte streams, segmentations (frame coalesced with following bytes) and "
             "consumer operation sequences on both sides of an upgraded call, compared with a byte-stream cursor model; short consumer sequences "
             "enumerated exhaustively on both sides and transports.",
        ref="DESIGN.md section 4, C18", technique="model-based property testing (rapid, generated operation sequences) + bounded-exhaustive consumer sequences; reference stream-cursor model",
        note="found and fixed: raw Read bypassed the buffered reader (fix: 39be39c)"),
})

PLAN["C19"] = dict(
    quick=[dict(test="TestC19Rapid", checks=1500), *shards("TestC19Grammar", 6)],
    thorough=[*shards("TestC19Rapid", 12, checks=8000), *shards("TestC19Grammar", 6)],
)

LEVEL.update({"C19": "exploration"})
RULE.update({
    "C19": "case = address template x operation {Bind(+DoListen), Listen, NewConnection} x pre-state {fresh service, after a failed Bind, bound but "
           "not served (filesystem socket), after a full bind/serve/shutdown cycle, stale socket file at the path}. Templates: protocol in {unix, tcp, "
           "UNIX, udp, http, '', padded, ...} x unix path forms (empty, @name, @, relative, ./relative, absolute, missing directory, >108 bytes, "
           "space, colon, unicode, a directory, '/') or tcp host forms (127.0.0.1:port, port 0, localhost, [::1], :port, no port, bad octet, bad port, "
           "unresolvable, service name) x ';' tails (none, ';', ';mode=0600', ';a;b', ';x:y', a path); strings without any ':'; random soups over "
           "{: ; @ / . u n i x t c p 0 1 space e-acute NUL}. All paths live in a per-case temp directory that is also the working directory. "
           "Plus the full product 5 protocols x all path/host forms x 5 tails x 3 operations. Oracle: address model - never a panic or hang; must-refuse "
           "strings (no ':', protocol not unix/tcp, empty unix path) give an error, install no listener and revive no old address; if a bind of a "
           "valid string succeeds, NewConnection with the SAME string reaches that service (unique vendor token), the filesystem path is a socket "
           "(replacing a stale one), '@' creates no file, and the path is gone after Shutdown + return; afterwards the object always binds and "
           "serves a good address again. Non-trivial = a string with a ';' tail or '@', a refused string that has a ':', or a stale socket present.",
})
ASSUME.update({"C19": ["over-long paths, unresolvable hosts, port 0, empty TCP host, '[::1]', 'localhost', '@' alone are don't-care for success, but must not crash",
                        "TCP ports are taken from a just-closed listener; a bind failure of a valid string is never a violation"]})
CLAIM.update({
    "C19": dict(
        text="Property test over an address grammar and random strings x three operations x five pre-states with an address model as oracle "
             "(refuse / valid-if-bound-then-reachable / don't-care), real sockets in a sandbox directory; the finite grammar product is enumerated completely.",
        ref="DESIGN.md section 4, C19", technique="property-based testing (rapid, grammar-based generator) + bounded-exhaustive grammar product; reference address model",
        note="found and fixed: panic on empty unix path (17767f1), parse error ignored (dd7c2b6)"),
})

PLAN["C14"] = dict(
    quick=[dict(test="TestC14Rapid", checks=1500), dict(test="TestC14Rapid", checks=600, shard=1, env={"GOMAXPROCS": "1"}), *shards("TestC14Enum", 4), *shards("TestC14Sock", 6)],
    thorough=[*shards("TestC14Rapid", 12, checks=15000), *shards("TestC14Rapid", 4, checks=8000, env={"GOMAXPROCS": "1"}), *shards("TestC14Enum", 4), *shards("TestC14Sock", 6)],
)
PLAN["C15"] = dict(
    quick=[dict(test="TestC15Rapid", checks=1500), dict(test="TestC15Rapid", checks=600, shard=1, env={"GOMAXPROCS": "1"}), *shards("TestC15Enum", 6), *shards("TestC15Sock", 6)],
    thorough=[*shards("TestC15Rapid", 12, checks=15000), *shards("TestC15Rapid", 4, checks=8000, env={"GOMAXPROCS": "1"}), *shards("TestC15Enum", 12), *shards("TestC15Sock", 6)],
)

LEVEL.update({"C14": "exploration", "C15": "exploration"})
_LIFE = ("a generated history of 1-25 events applied to ONE real Service driven through a controllable fake listener (Accept returns what the "
         "harness hands it: a net.Pipe connection, an injected timeout error, or the closed error; SetDeadline and Close are recorded), so every "
         "step of the accept loop is ordered by the harness, never by timing. Events: client connects, calls (must be answered), closes, aborts "
         "mid-frame, triggers a handler error; accept-timeout expiry; Shutdown while Accept is blocked; Shutdown where the pending Accept still "
         "returns a connection ('accept won the race'); Shutdown before serving starts; cancellation of the serving context; a second Bind during "
         "serving; re-Bind + re-serve of the same object (up to 4 cycles); a client arriving after serving ended. Model = automaton {serving, "
         "draining, open set}: the active-connection accessor equals |open| after every event; after Shutdown the call has not returned while a "
         "connection is open (event order, not durations), open connections are still answered, and it returns (nil) once the last one ends; an "
         "expiry stops the service iff the open set is empty, then with ServiceTimeoutError; every return closed the listener and left no library "
         "goroutine; the idle deadline is re-armed before every Accept and never without a timeout. ")
RULE.update({
    "C14": "case = " + _LIFE + "Plus the exhaustive product {3 Shutdown placements} x {0,1,2 open connections} x {5 ways to end} x {timeout 0 / non-zero}, and "
           "real kernel listeners (filesystem unix, abstract unix, TCP) x {Listen, Bind+DoListen} x {0,1,2 open connections} x 2 cycles on the same "
           "address. Non-trivial = a Shutdown with a connection open, a non-default Shutdown placement, or >= 2 serve cycles.",
    "C15": "case = " + _LIFE + "Here 90% of the histories serve with a timeout and expiries are frequent. Plus all event sequences of length <=5 (6 thorough) over "
           "{connect, close, abort, failcall, expiry}, and real-clock runs (150 ms timeout) on the three listener kinds x {Listen, Bind+DoListen} x "
           "{0,1,2 connections held for 4 periods} x 2 cycles on the same address with one-sided margins (must not stop while held; must stop within "
           "timeout + 5 s afterwards; then a dial must fail and the address must be servable again). Non-trivial = >=1 expiry with a connection "
           "open and >=1 expiry with none.",
})
ASSUME.update({
    "C14": ["interleavings inside one statement of the accept loop (between testing the flag and calling Accept) are reached only by the real-socket arm",
            "a late client is given 2 ms (fake) / 150 ms (sockets) to be wrongly answered: a slow machine can hide, never fabricate, a violation"],
    "C15": ["expiries are injected; the wall clock decides only in the real-socket arm, one-sidedly (4 periods held, timeout + 5 s to stop)",
            "on the fake listener the accept deadline is taken to be the idle timer itself (as in this code base): a deadline armed short of the period is reported as an early stop"],
})
CLAIM.update({
    "C14": dict(
        text="Stateful model-based test with schedule control: generated event histories on one Service object through a fake listener that makes "
             "every accept-loop step an explicit event, compared with a lifecycle automaton (drain order, return value, accounting via the white-box "
             "counter, reuse); placement x connections x endings product enumerated; kernel-listener arm for the same properties.",
        ref="DESIGN.md section 4, C14", technique="stateful model-based property testing (rapid-generated event histories, harness-owned schedule via a fake listener) + bounded-exhaustive product",
        note="white-box accessors via -overlay; histories are explicit, replayable event lists"),
    "C15": dict(
        text="Same machine with deterministic accept-timeout injection: an expiry must stop the service exactly when no accepted connection is open, "
             "the deadline must be re-armed before every Accept, and the endpoint must be released on a timeout return; all short event sequences "
             "enumerated; real-clock runs on unix/abstract/TCP listeners with one-sided margins.",
        ref="DESIGN.md section 4, C15", technique="stateful model-based property testing with injected expiries (fake listener) + bounded-exhaustive event sequences + real-clock runs",
        note="found and fixed: listener not closed on a timeout return (79d85b9)"),
})

PLAN["C20"] = dict(
    quick=[*shards("TestC20Product", 2), dict(test="TestC20Rapid", checks=150)],
    thorough=[*shards("TestC20Product", 2), *shards("TestC20Rapid", 8, checks=700)],
    workers=3,
)

LEVEL.update({"C20": "exploration"})
RULE.update({
    "C20": "case = one environment, run in a fresh child process (this test binary in helper mode) that inherits three descriptors 3,4,5 "
           "(listening abstract unix sockets, except that the descriptor the statement selects - or 3 - is of the generated kind: listening unix "
           "socket, listening TCP socket, regular file, pipe), sets LISTEN_PID itself (own pid / parent's pid / unset / a garbage literal) and calls "
           "Service.Listen with a separate fallback address. Full product: 4 pid modes x LISTEN_FDS in {unset,'','foo','-1','0','1','2','3'} x "
           "LISTEN_FDNAMES in {unset, fewer, more (varlink first / second), varlink first / middle / last / twice / absent, 'Varlink', empty} x 4 "
           "kinds = 1408 children. Plus rapid-generated boundary spellings (' 1', '1 ', '+2', '03', huge, full-width digit, names with blanks or "
           "empty entries, pid literals). Oracle: activation table from the statement; the parent asks every candidate endpoint for GetInfo - the "
           "predicted one first and generously (10 s, proves the child is up), then the others concurrently for 150 ms: exactly the predicted "
           "endpoint answers with the child's token; the child exits cleanly when told to shut down. Arguable integer spellings are don't-care "
           "(some endpoint must answer). Non-trivial = activation selected among >= 2 descriptors, or rejected for a reason other than all "
           "variables unset.",
})
ASSUME.update({"C20": ["'does not answer' for the non-predicted endpoints is a 150 ms observation made after the predicted endpoint answered: a slow machine can hide a wrong answerer, never fabricate one",
                        "LISTEN_FDS spellings other than ^[1-9][0-9]{0,8}$ that some reader would still call a positive integer ('+2', '03', ' 1') are don't-care"]})
CLAIM.update({
    "C20": dict(
        text="The statement's configuration product is enumerated completely (1408 child processes per run), each compared with an activation "
             "table by probing all candidate endpoints; boundary spellings are generated with rapid.",
        ref="DESIGN.md section 4, C20", technique="bounded-exhaustive enumeration of the configuration product + property-based testing (rapid) of boundary spellings; reference activation table as oracle",
        note="child = this test binary re-executed with ExtraFiles; LISTEN_PID is set by the child itself"),
})

PLAN["C17"] = dict(
    quick=[*shards("TestC17Cells", 8), dict(test="TestC17Rapid", checks=250), dict(test="TestC17CloseRace")],
    thorough=[*shards("TestC17Cells", 8), *shards("TestC17Rapid", 12, checks=3000), *shards("TestC17CloseRace", 4)],
)

LEVEL.update({"C17": "exploration"})
RULE.update({
    "C17": "case = one cell of {client: receive, Call, the receive function returned by Upgrade (its own context; the context given to Upgrade itself live or already cancelled), Send (write blocked by a peer that does not read, 8 MB), raw Read / ReadBytes / Write on the "
           "connection returned by Upgrade; handler: raw Read / ReadBytes / Write on Call.Conn under a context derived in the handler; service: the "
           "per-connection read under the serving context} x transport {unix, tcp, in-memory pipe, bridge subprocess (client side)} x trigger "
           "{cancel, deadline, none = control} x instant {context already dead, blocked with nothing in flight, after a prefix of a frame was "
           "delivered, trigger fires only after completion}; the harness owns both ends and sends every byte itself. Every cell once (about 330 cells, "
           "bounded-exhaustive), then rapid-generated variations of the prefix length, the number of follow-up frames and their segmentation. "
           "Oracle: the operation returns within 5 s of the trigger (expected: milliseconds) with a context/timeout error when nothing could "
           "complete, or with the right data when everything was available; afterwards operations on the SAME connection with a live context - "
           "alternating both read primitives - must not fail with a timeout and must deliver, exactly and in order, every byte the peer sent after "
           "the cancelled call returned (bytes in flight at the cancellation are don't-care: dropped or kept); no library goroutine is left. "
           "Non-trivial = the trigger fired while the operation was really blocked (not returned after 15 ms) or inside a frame.",
})
ASSUME.update({"C17": ["'promptly' = within 5 s (15 s on the confirming retry), one-sided", "a control-arm operation that fails with its own generous deadline because the machine was too slow is counted inconclusive, not a violation",
                        "bytes in flight at the instant of cancellation may be consumed and dropped (the statement says 'from that point on')"]})
CLAIM.update({
    "C17": dict(
        text="Every cell of operation x transport x trigger x instant is run with the harness owning both ends of the connection; return latency, "
             "error kind, goroutine census and the byte-exact delivery of follow-up traffic with a live context are checked; rapid varies prefix "
             "lengths, follow-up frames and segmentation.",
        ref="DESIGN.md section 4, C17", technique="bounded-exhaustive cell product + property-based testing (rapid) with harness-owned data arrival; oracle = bounded return, error class, stream suffix relation, goroutine census",
        note="found and fixed: bridge pipe ignored deadlines (30e87b2)"),
})

PLAN["C16"] = dict(
    quick=[dict(test="TestC16Pairs", race=True), dict(test="TestC16Rapid", checks=40, race=True, env={"VERIF_C16_SCHEDULES": "40"})],
    thorough=[*shards("TestC16Pairs", 2, race=True), *shards("TestC16Rapid", 2, checks=400, race=True, env={"VERIF_C16_SCHEDULES": "400"})],
    race=True, workers=2, replay_repeat=3,
)

LEVEL.update({"C16": "exploration"})
RULE.update({
    "C16": "case = a schedule: a serving call (Listen or Bind+DoListen, timeout 0 / 20 / 200 ms, abstract unix or TCP) plus 2-5 operations started "
           "concurrently at generated offsets (0-2 ms in 100 us steps), each possibly sustained for 5-50 ms, repeated for 3-25 rounds on a fresh or "
           "on the SAME service object: Shutdown; sustained GetListener; sustained RegisterInterface attempts (refused while serving, also tried "
           "during the drain phase); clients doing connect+GetInfo+GetInterfaceDescription+close; a client that keeps calling on one connection "
           "across the shutdown (drain phase); Call cancelled after 50-200 us and the connection reused; a more-stream; an upgraded call with handler "
           "and client raw Read/ReadBytes/Write incl. a cancelled raw read; cancellation of the serving context. Every pair of operation kinds "
           "(thorough: every triple) is enumerated, then rapid-generated schedules. The usage contract is kept by construction (one goroutine per "
           "Connection, handler I/O in the handler, re-serve only after return). Each schedule runs in a FRESH child process of the -race build "
           "(GORACE halt_on_error=0 log_path=...); oracle: no race report whose access stacks contain a github.com/varlink/go/varlink frame "
           "(reports confined to harness code are a harness failure, exit 2). Non-trivial = at least two operations really overlapped in time "
           "(start/end instants are recorded by the child).",
})
ASSUME.update({"C16": ["the race detector sees only the interleavings that execute; generation varies which operations overlap, repetition how",
                        "two RegisterInterface calls racing each other with no serving call in progress are outside the statement but are race-free anyway after the fix"]})
CLAIM.update({
    "C16": dict(
        text="Generated concurrent schedules executed under the Go race detector, one fresh process per schedule so that no report is suppressed; "
             "all pairs (thorough: triples) of operation kinds are enumerated, random schedules with generated offsets, durations and repetition "
             "beyond; a report with library frames is a violation.",
        ref="DESIGN.md section 4, C16", technique="schedule fuzzing: bounded-exhaustive operation pairs/triples + rapid-generated schedules, with the race detector (happens-before analysis) as the oracle",
        note="found and fixed: running flag race (7c75a32), registry map race during drain (9550491)"),
})

PLAN["C07"] = dict(
    quick=[dict(test="TestC07Rapid", checks=250), *shards("TestC07Matrix", 6), dict(test="TestC07Batch", checks=1, env={"VERIF_C07_BATCH": "40"})],
    thorough=[*shards("TestC07Rapid", 12, checks=2000), *shards("TestC07Matrix", 6), *shards("TestC07Batch", 8, checks=2, env={"VERIF_C07_BATCH": "60"})],
)

PLAN["C08"] = dict(
    quick=[dict(test="TestC08Fixed"), *shards("TestC08Rapid", 4, checks=3, env={"VERIF_C08_DESCS": "12", "VERIF_C08_STEPS": "15"})],
    thorough=[dict(test="TestC08Fixed"), *shards("TestC08Rapid", 12, checks=12, env={"VERIF_C08_DESCS": "20", "VERIF_C08_STEPS": "40"})],
)

LEVEL.update({"C07": "translation_validation", "C08": "translation_validation"})
RULE.update({
    "C07": "programs = interface descriptions in the statement's domain, generated as trees (1-6 members; every type constructor at every position: "
           "method input/output, error parameters, alias bodies, nested to depth 5; optionals of structs/arrays/maps, arrays of optionals, inline and "
           "aliased enums, empty structs, self-referential aliases under ?/[]/[string], forward references, parameterless errors; all 25 Go keywords, "
           "the generator's local identifiers and IDL keywords as field names; member names such as Call/Send/Reply/String/Context; dashes, upper case "
           "and xn-- labels in interface names; doc comments with backticks, '*/', quotes, 'fmt.Sprintf', 'json.RawMessage', 'context.Context', "
           "'@IMPORTS@', '%v'; LF or CRLF; 0-3 trailing newlines; one field per line or inline) plus a fixed matrix of 12 wrappers x 10 leaf types x 4 "
           "positions. Each is given to the real generator binary (built from the tree under test): exit status, no crash, exactly one <pkg>.go, "
           "parses and type-checks (go/types, source importer) against /repo's varlink package, package name derived from the interface name, same "
           "bytes on a second run; batches of 40 (60) packages are compiled with the real compiler, linked and run: VarlinkGetName() and "
           "VarlinkGetDescription() must equal the input up to trailing newlines. Non-trivial = a description with >=1 method with parameters and "
           ">=1 composite type; distinct by normalised text.",
    "C08": "programs = batches of 10 (20) descriptions from the C07 domain compiled with shims derived from the generated code's own go/types "
           "information (an implementation overriding every method, one overriding none) and a driver; per description 12 (40) generated steps: "
           "values of every declared type as JSON text per the varlink mapping (int64 extremes and +-2^53+-1, floats incl. 5e-324 and 1e308, unicode / "
           "NUL / quote strings, empty and nested arrays and maps with case-colliding keys, absent and present optionals at every depth, arbitrary "
           "JSON for object, enum names), reply shapes (typed reply, each declared error with values, parameterless error, not overridden, more with "
           "0-3 continues, oneway, upgrade, unknown method and undecodable parameters through a raw client). A recording relay captures both "
           "directions. Oracle (model.WireValue + type-directed comparison): call frame method = <interface>.<Method>, parameters object has exactly "
           "the description's field names (absent optionals omitted or null) with model-equal values and exactly the requested flags; the "
           "implementation receives equal Go values; reply / error frames carry exactly the output / error fields and the name "
           "<interface>.<Error>; the generated client returns equal values, the generated error type with equal fields, "
           "*varlink.MethodNotImplemented for non-overridden methods; MethodNotFound / InvalidParameter for unknown methods / undecodable "
           "parameters; Continues on all but the last reply; no bytes for oneway. Plus one fixed description with all constructors and 12 fixed "
           "steps. Non-trivial = a step whose values contain an optional, a nested composite or a non-ASCII string.",
})
ASSUME.update({
    "C07": ["member names equal to identifiers the emitted code itself defines or calls (VarlinkCall, VarlinkInterface, VarlinkNew, VarlinkDispatch, VarlinkGetName, VarlinkGetDescription, Error, MethodNotImplemented, MethodNotFound, InvalidParameter, InterfaceNotFound) are outside the statement's domain and are not generated",
            "excluded by construction (known finding): a field named 'error' directly inside an error's parameter list",
            "field names start with a lower-case letter (two names differing only in the case of the first letter would collide after capitalisation; the varlink grammar makes that legal, the statement's 'distinct field names' is read as distinct after the generator's capitalisation)"],
    "C08": ["Go values are built from / read back as JSON through encoding/json on the generated types; every verdict is anchored on the captured wire bytes, so a json tag that is wrong in both directions still shows up",
            "nil-versus-empty slice distinctions that JSON cannot express are not asserted; absent optionals may be omitted or null"],
})
CLAIM.update({
    "C07": dict(
        text="Translation validation of the generator over generated descriptions: each output is type-checked in process with go/types against the "
             "repository's varlink package and checked for determinism and naming; batches are compiled by the real compiler, linked, run, and "
             "the reported name/description compared with the input; a constructor x position matrix is enumerated completely.",
        ref="DESIGN.md section 4, C07", technique="grammar-based property testing (rapid) + bounded-exhaustive constructor/position matrix; validity-predicate oracle (type checker, compiler, run-time self-description, determinism)",
        note="six generator defects found and fixed, one recorded as known finding (error parameter named 'error')"),
    "C08": dict(
        text="Translation validation of the generated stubs: for generated descriptions and generated typed values the generated client and the "
             "generated service are linked against derived shims and driven through a recording relay; wire frames, values seen by the "
             "implementation and values/errors returned by the client are compared type-directedly with the varlink JSON mapping model.",
        ref="DESIGN.md section 4, C08", technique="property-based testing (rapid) over (description, typed values, reply shape) with a reference wire-value model and round-trip oracle on compiled generated code",
        note="shares the batch builder with C07"),
})

# ---- additions after the third and fourth seed rounds and the mutation campaign (appended to the rule texts) ----
_ADD = {
    "C02": " Further: client pipelining (up to 5 calls in a generated send/receive order over a recording proxy that never blocks a writer and can "
           "hold replies back until the next receive, then deliver them in one segment or under a cut plan; for a third of the cases a second "
           "goroutine already waits in the receive function of the oldest call while later calls are sent); and, on TCP and unix sockets, a 6-40 MiB "
           "message followed at once by the sender's close and read slowly by the peer, in both directions.",
    "C04": " Raw call frames carry every combination of more/oneway/upgrade; method strings include interface and method parts of 254-5000 bytes "
           "(1- to 4-byte characters).",
    "C07": " Every other determinism run finds an older, longer file of the same name in the output directory.",
    "C08": " Oneway steps also target methods that are not overridden or answered with a declared error; some call steps are answered by a foreign "
           "peer with a declared error frame in shapes the generated service never sends (no, null, empty, ill-fitting parameters): the generated "
           "client must return an error of that name and must not crash.",
    "C09": " Plus reference structures: up to five type declarations over four names defined in terms of each other through every constructor "
           "(rings, self-reference, dangling names), used under every constructor.",
    "C11": " Every third receive passes nil as the output value (as generated stubs do); GetInfo and GetInterfaceDescription are exercised as "
           "client calls of their own against the same reply streams.",
    "C15": " Real-socket cases also require a NEW client to be served after four idle periods with connections open.",
    "C16": " Services register a second interface out of lexical order; every client operation begins with three connections introspecting at "
           "the same instant; a third of the schedules start serving while a RegisterInterface call (2 ms description getter) is in flight.",
    "C17": " Further operations: Upgrade() itself as a blocking send, and the receive function returned by Upgrade under a context of its own "
           "while the context given to Upgrade is alive or already cancelled.",
    "C18": " Client cases on kernel sockets include: the peer sends its bytes and hangs up, the client writes raw data until a write fails, "
           "and only then reads - everything the peer sent must still arrive.",
    "C19": " Further pre-state: the previous serving call was shut down but has not returned (a client of it is still connected) - the object is "
           "re-bound once that call has released its listener, and the new endpoint must survive the old call's return. Abstract and TCP cases "
           "plant an ordinary file named like the address in the working directory, which must survive. The pool has spellings a path "
           "normaliser would rewrite (@n//x, @n/./x, @n/, @a/../b, trailing slash, missing/../, //, /./).",
    "C14": " Every call the harness itself makes into the service (Bind, Shutdown, GetListener, the connection count) is bounded: one that does not "
           "return is reported as a lock left held.",
}
for _k, _v in _ADD.items():
    RULE[_k] = RULE[_k] + _v


# ---- additions of the sixth seed round (see DESIGN.md 11.5) -------------------------------------------------------
RULE["C01"] += (" Plus 8-32 (thorough 64) connections with three large replies each, written at the same time, in half of the cases after a refused reply attempt on every connection.")
RULE["C01"] += " One reply in twelve has parameters without a JSON encoding (NaN): refused, reported to the handler, nothing written."
RULE["C02"] += (" The service arm also provokes the service's own error replies (unknown interface / method / built-in method, the four helpers) with "
                "hostile strings (NUL, BEL, VT, ESC, DEL, U+E0001, U+10FFFD, escape look-alikes); every other concurrent case starts each connection with a "
                "reply attempt that cannot be encoded.")
RULE["C07"] += " The one file written must be a non-test source of its package for the go tool on this platform (interface names ending in -test, -GOOS, -GOARCH)."
RULE["C09"] += " Also well-formed nests of 1-3000 levels through every constructor pair, in every member position."
RULE["C10"] += (" Plus 36-160 (thorough 400) connections on ONE service, most of which the service has to end (frame that is not a call, failing handler, "
                "ill-formed JSON, abort inside a frame, peer gone while a 300 KB reply is written), interleaved with well-behaved ones.")
RULE["C13"] += " For every other registration the dispatcher changes the text its getter returns after RegisterInterface has returned; the registered text must be reported."
RULE["C14"] += " Kernel-listener variant: every cycle preceded by Bind + Shutdown on the same address without serving."
RULE["C17"] += (" Service cells also with a serving context that reaches its deadline; after every interrupted Send / Upgrade-send / raw Write the peer drains and a "
                "write under a live context on the same connection must succeed and arrive.")
RULE["C18"] += " The upgrade frame itself, and frames preceding the raw data, can be 4000-70000 bytes (larger than the reader's buffer, tail coalesced with what follows)."
RULE["C10"] += " Plus a subscription handler that streams continues-replies until a reply attempt fails, on pipe / unix / tcp, whose client reads 0 or 3 replies and vanishes: the handler must see its writes fail and return, the connection must be released."
RULE["C18"] += (" Churn cases (TestC18Twins): 2-6 client connections of one process, each against a peer with a stream of its own, opened / pinged / upgraded / read "
                "(frame and raw reads mixed) / closed once, twice or three times in a generated interleaving driven from one goroutine, judged by the cursor model per "
                "connection; handler-side variant: 2-8 upgraded calls served at the same time by one service. Non-trivial there = at least two connections open at once.")
RULE["C06"] += " Plus interface names of 200-70000 bytes (every length 249-262) in three label shapes, glued to the following member with no separator, blank, tab, newline, CRLF, comment or dot, and names whose last letters spell the beginning of a keyword."
RULE["C20"] += " Name lists also contain entries that merely contain 'varlink' (suffix, prefix, infix, with dots) before the exact entry or instead of one."
RULE["C13"] += " A third of the serving cycles are preceded by a refused serving attempt (address without protocol, unknown protocol, empty path)."
RULE["C16"] += " A third of the schedules (and four fixed ones: held client, introspecting clients, Shutdown, sustained registration attempts) start every round with refused serving attempts before the real one."
RULE["C08"] += (" Some call steps are answered by a foreign peer with an error of ANOTHER interface whose member name the description declares (with fitting or empty parameters): the "
                "generic *varlink.Error of exactly that name must come back; others with a well-formed success frame (for methods without output: {}, null or no parameters member): success with equal values.")
RULE["C01"] += " The unencodable reply parameters are drawn from nine kinds: NaN, json.RawMessage by value / by pointer whose bytes are not one JSON value (raw NUL, truncated, trailing material forging members), a channel, Marshalers that fail or return such bytes."
RULE["C02"] += " One call in six of the service arm has a reply or error attempt with such an unencodable value before its real replies: refused, and the wire still carries whole valid frames only."
RULE["C07"] += " One description in four (and four fixed ones) ends in blanks that are not newlines (after the last member, on a line of their own, at the end of a closing comment): the run-time text may differ by trailing newlines only."
RULE["C18"] += " One client case in twelve (24 fixed): the upgrade reply is awaited under a 60 ms deadline, raw reads use a context without deadline, the peer's later bytes are sent after that deadline."
